package sem

func sameChain(a, b error) bool {
	for {
		if a == nil || b == nil {
			return a == nil && b == nil
		}
		if a == b {
			return true
		}
		ua, oka := a.(interface{ Unwrap() error })
		ub, okb := b.(interface{ Unwrap() error })
		if !oka || !okb {
			return false
		}
		a, b = ua.Unwrap(), ub.Unwrap()
	}
}

//verif:harness C17 quick n=0..7
func H_C17_sem(n int) {
	in := vBytes("in", n)
	snap := string(in)
	pre := Ver{Major: vU64("pre.maj"), Minor: vU64("pre.min"), Patch: vU64("pre.pat"), PreRelease: vStr("pre.pre", 2), Build: vStr("pre.build", 1)}
	v := pre
	err := v.UnmarshalText(in)
	// UnmarshalText is the parser under rule 0: same verdict, the parsed value is what gets stored (whatever the
	// receiver held before), and a refusal wraps the parser's error (errors.Is / errors.As keep working)
	pv, perr := DefaultParser(in, 0)
	vAssert("unmarshal-agrees-with-parser", (err == nil) == (perr == nil))
	if err == nil {
		vAssert("successful-unmarshal-stores-the-parsed-value", v == pv)
	} else {
		w, wraps := err.(interface{ Unwrap() error })
		vAssert("unmarshal-error-wraps-the-parser-error", wraps && w.Unwrap() != nil)
		for _, sentinel := range []error{ErrInputTooLong, ErrInvalidPreRelease, ErrInvalidBuild, ErrInvalidMajor, ErrInvalidMinor, ErrInvalidPatch} {
			vAssert("same-sentinels-as-the-parser", errorsIs(err, sentinel) == errorsIs(perr, sentinel))
		}
	}
	vReach("ok", err == nil)
	vReach("failed", err != nil)
	if err != nil {
		vAssert("receiver-untouched-on-error", v == pre)
	}
	vAssert("input-not-modified", string(in) == snap)
	r := Rule(vU8("rule") & 1)
	bv, berr := DefaultParser(in, r)
	sv, serr := DefaultParser(string(in), r)
	vAssert("string-bytes-same-value", bv == sv && (berr == nil) == (serr == nil))
	if berr != nil && serr != nil {
		be, bok := berr.(*ParseError[[]byte])
		se, sok := serr.(*ParseError[string])
		vAssert("string-bytes-same-error", bok && sok && be.Func == se.Func && string(be.Input) == se.Input && sameChain(be.Err, se.Err))
	}
	if berr == nil {
		vAssert("parsed-strings-do-not-alias-input", !vAliases(bv.PreRelease, in) && !vAliases(bv.Build, in) && !vAliases(v.PreRelease, in) && !vAliases(v.Build, in))
		for i := range in {
			in[i] = 0xAA
		}
		// sv was parsed from an immutable string: it cannot have changed (a copy of bv would share bv's memory)
		vAssert("value-independent-of-buffer", bv == sv)
	}
}
