package sem

func errorsIs(err, target error) bool {
	for err != nil {
		if err == target {
			return true
		}
		u, ok := err.(interface{ Unwrap() error })
		if !ok {
			return false
		}
		err = u.Unwrap()
	}
	return false
}

type semRef struct {
	ok                  bool
	tag                 bool
	major, minor, patch uint64
	overflow            bool // some numeric component exceeds 2^64-1 (which one is in ovfAt)
	ovfAt               int
}

// refSemver: a byte-wise scanner for the SemVer 2.0.0 BNF (no regexp, no shared code with the implementation).
func refSemver(in []byte) semRef {
	n := len(in)
	r := semRef{ok: n > 0}
	s0 := 0
	if n > 0 && in[0] == 'v' {
		r.tag = true
		s0 = 1
	}
	phase := 0 // 0 major, 1 minor, 2 patch, 3 pre-release, 4 build
	l := 0     // length of the current number / identifier
	lead0 := false
	nondigit := false
	var nums [3]uint64
	var ovf [3]bool
	ok := r.ok
	for i := s0; i < n; i++ {
		c := in[i]
		digit := c >= '0' && c <= '9'
		letter := (c >= 'A' && c <= 'Z') || (c >= 'a' && c <= 'z') || c == '-'
		if phase <= 2 {
			if digit {
				if l == 0 {
					lead0 = c == '0'
				} else if lead0 {
					ok = false
				}
				d := uint64(c - '0')
				if nums[phase] > 1844674407370955161 || (nums[phase] == 1844674407370955161 && d > 5) {
					ovf[phase] = true
				}
				nums[phase] = nums[phase]*10 + d
				if l < 100 {
					l++
				}
			} else if c == '.' && phase < 2 {
				ok = ok && l > 0
				phase++
				l, lead0 = 0, false
			} else if c == '-' && phase == 2 {
				ok = ok && l > 0
				phase = 3
				l, lead0, nondigit = 0, false, false
			} else if c == '+' && phase == 2 {
				ok = ok && l > 0
				phase = 4
				l, lead0, nondigit = 0, false, false
			} else {
				ok = false
			}
		} else if phase == 3 {
			if digit || letter {
				if l == 0 {
					lead0 = c == '0'
				}
				if !digit {
					nondigit = true
				}
				if l < 100 {
					l++
				}
			} else if c == '.' || c == '+' {
				ok = ok && l > 0 && (nondigit || !lead0 || l == 1)
				if c == '+' {
					phase = 4
				}
				l, lead0, nondigit = 0, false, false
			} else {
				ok = false
			}
		} else {
			if digit || letter {
				if l < 100 {
					l++
				}
			} else if c == '.' {
				ok = ok && l > 0
				l = 0
			} else {
				ok = false
			}
		}
	}
	ok = ok && phase >= 2 && l > 0
	if phase == 3 {
		ok = ok && (nondigit || !lead0 || l == 1)
	}
	r.ok = ok
	r.major, r.minor, r.patch = nums[0], nums[1], nums[2]
	for k := 2; k >= 0; k-- {
		if ovf[k] {
			r.overflow = true
			r.ovfAt = k
		}
	}
	return r
}

func parseEntry(entry int, in []byte) (Ver, error, bool, bool) {
	switch entry {
	case 0:
		v, err := Parse(in)
		return v, err, true, true
	case 1:
		v, err := ParseVersion(in)
		return v, err, true, false
	case 2:
		v, err := ParseTag(in)
		return v, err, false, true
	case 3:
		v, err := DefaultParser(in, 0)
		return v, err, true, true
	}
	v, err := DefaultParser(in, RuleDisableTag)
	return v, err, true, false
}

func parseEntryString(entry int, in string) (Ver, error) {
	switch entry {
	case 0:
		return Parse(in)
	case 1:
		return ParseVersion(in)
	case 2:
		return ParseTag(in)
	case 3:
		return DefaultParser(in, 0)
	}
	return DefaultParser(in, RuleDisableTag)
}

//verif:harness C03 quick n=0..8 entry=0..0
//verif:harness C03 quick n=5..7 entry=1..4
//verif:harness C03 thorough n=9..10 entry=0..0
//verif:harness C03 thorough n=8..9 entry=1..4
func H_C03_grammar(n int, entry int) {
	in := vBytes("in", n)
	v, err, verOK, tagOK := parseEntry(entry, in)
	ref := refSemver(in)
	accept := ref.ok && !ref.overflow && ((ref.tag && tagOK) || (!ref.tag && verOK))
	vReach("accepted", err == nil)
	vReach("rejected", err != nil)
	vAssert("accept-iff-grammar", (err == nil) == accept)
	if err == nil {
		vAssert("numbers", v.Major == ref.major && v.Minor == ref.minor && v.Patch == ref.patch)
		f := Format(0)
		if ref.tag {
			f = FormatTag
		}
		out, ferr := DefaultFormatter(nil, v, f)
		vAssert("format-reproduces-input", ferr == nil && string(out) == string(in))
		vAssert("parsed-value-is-valid", v.Valid() == nil)
		// every other output path gives the same text: String/MarshalText/%s the plain form, StringTag/%t the tag form
		plain, _ := DefaultFormatter(nil, v, 0)
		tagged, _ := DefaultFormatter(nil, v, FormatTag)
		vAssert("tag-form-is-v-plus-plain", string(tagged) == "v"+string(plain))
		mt, merr := v.MarshalText()
		vAssert("marshaltext-is-plain", merr == nil && string(mt) == string(plain))
		vAssert("string-is-plain", v.String() == string(plain))
		vAssert("stringtag-is-tagged", v.StringTag() == string(tagged))
		var ss, st vState
		v.Format(&ss, 's')
		v.Format(&st, 't')
		vAssert("verb-s-is-plain", string(ss.buf) == string(plain))
		vAssert("verb-t-is-tagged", string(st.buf) == string(tagged))
		u := Ver{Major: vU64("prev.major"), PreRelease: "old", Build: "old"} // whatever the variable held before
		uerr := u.UnmarshalText(plain)
		vAssert("unmarshaltext-of-plain", uerr == nil && u == v)
	} else {
		_, typed := err.(*ParseError[[]byte])
		vAssert("typed-zero", typed && v == Ver{})
		if n > 0 && ref.tag && !tagOK {
			vAssert("tag-not-allowed", errorsIs(err, ErrTagFormNotAllowed))
		}
		if n > 0 && !ref.tag && !verOK {
			vAssert("expected-tag", errorsIs(err, ErrExpectedTagForm))
		}
	}
	sv, serr := parseEntryString(entry, string(in))
	vAssert("string-agrees", (serr == nil) == (err == nil) && sv == v)
}

// numeric components around 2^64: k symbolic digits in one position, zeros elsewhere
//
//verif:harness C03 quick k=19..21 pos=0..2
func H_C03_uint64Limit(k int, pos int) {
	digits := vBytes("digits", k)
	for i := 0; i < k; i++ {
		vAssume(digits[i] >= '0' && digits[i] <= '9')
	}
	vAssume(digits[0] != '0')
	var in []byte
	for p := 0; p < 3; p++ {
		if p > 0 {
			in = append(in, '.')
		}
		if p == pos {
			in = append(in, digits...)
		} else {
			in = append(in, '0')
		}
	}
	v, err := Parse(in)
	// digit-string comparison with 18446744073709551615
	const limit = "18446744073709551615"
	fits := k < 20
	if k == 20 {
		fits = true
		decided := false
		for i := 0; i < 20; i++ {
			if !decided && digits[i] != limit[i] {
				decided = true
				fits = digits[i] < limit[i]
			}
		}
	}
	vReach("fits", fits)
	vReach("overflows", !fits)
	vAssert("accept-iff-fits-uint64", (err == nil) == fits)
	if err != nil {
		want := ErrInvalidMajor
		if pos == 1 {
			want = ErrInvalidMinor
		} else if pos == 2 {
			want = ErrInvalidPatch
		}
		vAssert("component-sentinel", errorsIs(err, want) && v == Ver{})
	} else {
		out, _ := DefaultFormatter(nil, v, 0)
		vAssert("format-reproduces-input", string(out) == string(in))
	}
}

// a version value reports itself valid exactly when its text parses back to an equal value
//
//verif:harness C03 quick lp=0..4 lb=0..2
//verif:harness C03 thorough lp=5..5 lb=0..2
func H_C03_validIffRoundtrip(lp int, lb int) {
	v := Ver{Major: vU64("major"), Minor: vU64("minor"), Patch: vU64("patch"), PreRelease: vStr("pre", lp), Build: vStr("build", lb)}
	vAssume(v.Major < 100000 && v.Minor < 10 && v.Patch < 100)
	valid := v.Valid() == nil
	text := v.String()
	back, err := Parse(text)
	vReach("valid", valid)
	vReach("invalid", !valid)
	vAssert("valid-iff-roundtrip", valid == (err == nil && back == v))
	// Valid against the grammar itself (the parser and Valid share their patterns, so the link above alone
	// cannot see a pattern that drifts in both)
	preOK := lp == 0 || (asciiOnly(v.PreRelease) && refSplitPre(v.PreRelease).valid)
	buildOK := lb == 0 || refBuildValid(v.Build)
	vAssert("valid-iff-grammar", valid == (preOK && buildOK))
}

// refBuildValid: dot separated non-empty identifiers over [0-9A-Za-z-]
func refBuildValid(s string) bool {
	ok := len(s) > 0
	l := 0
	for i := 0; i < len(s); i++ {
		c := s[i]
		if c == '.' {
			ok = ok && l > 0
			l = 0
			continue
		}
		ok = ok && isIdentChar(c)
		l++
	}
	return ok && l > 0
}

type vState struct{ buf []byte }

func (s *vState) Write(b []byte) (int, error) { s.buf = append(s.buf, b...); return len(b), nil }
func (s *vState) Width() (int, bool)          { return 0, false }
func (s *vState) Precision() (int, bool)      { return 0, false }
func (s *vState) Flag(c int) bool             { return false }
