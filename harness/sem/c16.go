package sem

//verif:harness C16 quick p=0..3 spare=0..1
//verif:harness C16 quick p=2..2 spare=9..9
//verif:harness C16 quick p=2..2 spare=64..64
//verif:harness C16 thorough p=4..8 spare=0..1
func H_C16_sem(p int, spare int) {
	prefix := vBytes("prefix", p)
	buf := make([]byte, p, p+spare)
	copy(buf, prefix)
	snap := string(prefix)
	v := Ver{Major: vU64("major"), Minor: vU64("minor"), Patch: vU64("patch"), PreRelease: vStr("pre", 2), Build: vStr("build", 1)}
	vAssume(v.Major < 100 && v.Minor < 10 && v.Patch < 100)
	f := Format(vU8("f") & 1)
	r, err := DefaultFormatter(buf, v, f)
	base, _ := DefaultFormatter(nil, v, f)
	vAssert("no-error", err == nil)
	vAssert("prefix-kept", len(r) >= p && string(r[:p]) == snap)
	vAssert("suffix-is-plain-output", len(r) >= p && string(r[p:]) == string(base))
	vAssert("caller-bytes-untouched", string(buf[:p]) == snap)
	vReach("tag", f == FormatTag)
}

// the caller's buffer is the result of an earlier call: the earlier text stays what it was and the new text follows
//
//verif:harness C16 quick
func H_C16_semChain() {
	v1 := Ver{Major: vU64("major1"), Minor: vU64("minor1"), Patch: vU64("patch1"), PreRelease: vStr("pre1", 2), Build: vStr("build1", 1)}
	v2 := Ver{Major: vU64("major2"), Minor: vU64("minor2"), Patch: vU64("patch2"), PreRelease: vStr("pre2", 1), Build: vStr("build2", 1)}
	vAssume(v1.Major < 100 && v1.Minor < 10 && v1.Patch < 100 && v2.Major < 100 && v2.Minor < 10 && v2.Patch < 100)
	f1, f2 := Format(vU8("f1")&1), Format(vU8("f2")&1)
	a, _ := DefaultFormatter(nil, v2, f2)
	alone := string(a)
	first, err1 := DefaultFormatter(nil, v1, f1)
	snap := string(first)
	second, err2 := DefaultFormatter(first, v2, f2)
	vAssert("no-error", err1 == nil && err2 == nil)
	vAssert("earlier-text-kept-and-new-text-appended", string(second) == snap+alone)
	vAssert("earlier-result-untouched", string(first) == snap)
}
