package sem

//verif:harness C16 quick p=0..3 spare=0..1
//verif:harness C16 quick p=2..2 spare=9..9
//verif:harness C16 quick p=2..2 spare=64..64
//verif:harness C16 thorough p=4..8 spare=0..1
func H_C16_sem(p int, spare int) {
	prefix := vBytes("prefix", p)
	buf := make([]byte, p, p+spare)
	copy(buf, prefix)
	snap := string(prefix)
	v := Ver{Major: vU64("major"), Minor: vU64("minor"), Patch: vU64("patch"), PreRelease: vStr("pre", 2), Build: vStr("build", 1)}
	vAssume(v.Major < 100 && v.Minor < 10 && v.Patch < 100)
	f := Format(vU8("f") & 1)
	r, err := DefaultFormatter(buf, v, f)
	base, _ := DefaultFormatter(nil, v, f)
	vAssert("no-error", err == nil)
	vAssert("prefix-kept", len(r) >= p && string(r[:p]) == snap)
	vAssert("suffix-is-plain-output", len(r) >= p && string(r[p:]) == string(base))
	vAssert("caller-bytes-untouched", string(buf[:p]) == snap)
	vReach("tag", f == FormatTag)
}
