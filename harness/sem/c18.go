package sem

//verif:harness C18 quick n=0..6
//verif:harness C18 thorough n=7..7
func H_C18_totalSem(n int) {
	vMergeOutcomes()
	in := vBytes("in", n)
	r := Rule(vInt("rule"))
	max := vInt("max")
	vAssume(max >= 0)
	save := MaxInputLength
	MaxInputLength = max
	_, e1 := DefaultParser(in, r)
	_, e2 := Parse(string(in))
	_, e3 := ParseVersion(in)
	_, e4 := ParseTag(in)
	var v Ver
	e5 := v.UnmarshalText(in)
	_, e6 := Compare(in, "1.0.0")
	_, e7 := CompareTag("v1.0.0", in)
	_, e8 := CompareVersion[string, string]("1.0.0", string(in))
	_, e9 := Latest(in, in)
	_, e10 := LatestVersion(in, "1.0.0")
	_, e11 := LatestTag("v1.0.0", in)
	MaxInputLength = save
	vReach("some-error", e1 != nil || e2 != nil || e3 != nil || e4 != nil || e5 != nil || e6 != nil || e7 != nil || e8 != nil || e9 != nil || e10 != nil || e11 != nil)
	vAssert("returns-normally", true)
}

// arbitrary (also non-ASCII, invalid) field strings through the comparator and Valid
//
//verif:harness C18 quick la=0..3 lb=0..3
//verif:harness C18 thorough la=4..4 lb=0..4
func H_C18_totalCompare(la int, lb int) {
	vMergeOutcomes()
	a, b := vStr("a", la), vStr("b", lb)
	c := DefaultComparePreRelease(a, b)
	c2 := DefaultComparePreRelease([]byte(a), b)
	x := Ver{Major: vU64("x.maj"), Minor: vU64("x.min"), Patch: vU64("x.pat"), PreRelease: a, Build: b}
	y := Ver{Major: vU64("y.maj"), Minor: vU64("y.min"), Patch: vU64("y.pat"), PreRelease: b, Build: a}
	c3 := x.Compare(y)
	_ = x.Latest(y)
	e := x.Valid()
	vAssert("in-range", c >= -1 && c <= 1 && c3 >= -1 && c3 <= 1)
	vAssert("bytes-and-string-agree", c == c2)
	vReach("invalid", e != nil)
	vReach("non-ascii", la > 0 && a[0] >= 0x80)
}

//verif:harness C18 quick n=1..6
//verif:harness C18 quick n=1023..1025
//verif:harness C18 quick n=2048..2048
func H_C18_limitSem(n int) {
	var in []byte
	if n <= 6 {
		in = vBytes("in", n)
	} else {
		in = make([]byte, n)
		copy(in, "1.0.0-")
		for i := 6; i < n; i++ {
			in[i] = 'a'
		}
	}
	max := vInt("max")
	vAssume(max >= 0 && max <= 1<<31)
	save := MaxInputLength
	MaxInputLength = max
	_, err := Parse(in)
	_, serr := ParseVersion(string(in))
	MaxInputLength = save
	tooLong := max != 0 && n > max
	vReach("too-long", tooLong)
	vReach("within-limit", !tooLong)
	if tooLong {
		pe, ok := err.(*ParseError[[]byte])
		vAssert("too-long-error", err != nil && errorsIs(err, ErrInputTooLong) && ok && len(pe.Input) == 0)
		se, sok := serr.(*ParseError[string])
		vAssert("too-long-error-string", serr != nil && errorsIs(serr, ErrInputTooLong) && sok && len(se.Input) == 0)
	} else {
		vAssert("never-too-long-within-limit", err == nil || !errorsIs(err, ErrInputTooLong))
		vAssert("never-too-long-within-limit-string", serr == nil || !errorsIs(serr, ErrInputTooLong))
		if n > 6 {
			vAssert("long-valid-version-accepted", err == nil && serr == nil)
		}
	}
}
