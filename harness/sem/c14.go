package sem

func panics(f func()) (p bool) {
	defer func() {
		if recover() != nil {
			p = true
		}
	}()
	f()
	return false
}

//verif:harness C14 quick la=0..3 lb=0..3
//verif:harness C14 thorough la=4..4 lb=0..4
func H_C14_orderLaws(la int, lb int) {
	a, b := vStr("a", la), vStr("b", lb)
	for i := 0; i < la; i++ {
		vAssume(a[i] < 0x80)
	}
	for i := 0; i < lb; i++ {
		vAssume(b[i] < 0x80)
	}
	va, vb := refSplitPre(a), refSplitPre(b)
	vAssume((la == 0 || va.valid) && (lb == 0 || vb.valid))
	x := Ver{Major: vU64("a.maj"), Minor: vU64("a.min"), Patch: vU64("a.pat"), PreRelease: a, Build: vStr("a.build", 1)}
	y := Ver{Major: vU64("b.maj"), Minor: vU64("b.min"), Patch: vU64("b.pat"), PreRelease: b, Build: vStr("b.build", 2)}
	cxy, cyx := x.Compare(y), y.Compare(x)
	vAssert("result-in-range", cxy == -1 || cxy == 0 || cxy == 1)
	vAssert("antisymmetric", cxy == -cyx)
	vAssert("reflexive", x.Compare(x) == 0)
	// build metadata never matters
	x2 := x
	x2.Build = vStr("other.build", 3)
	vAssert("build-ignored", x2.Compare(y) == cxy)
	sameCore := x.Major == y.Major && x.Minor == y.Minor && x.Patch == y.Patch
	if sameCore && a == b {
		vAssert("equal-core-and-prerelease-is-zero", cxy == 0)
	}
	l := x.Latest(y)
	vAssert("latest-is-an-argument", l == x || l == y)
	vAssert("latest-is-never-the-lower", l.Compare(x) >= 0 && l.Compare(y) >= 0)
	vReach("less", cxy == -1)
	vReach("equal", cxy == 0)
	vReach("greater", cxy == 1)
}

//verif:harness C14 quick which=0..2 lp=0..1 lb=0..1
func H_C14_next(which int, lp int, lb int) {
	// pre-release and build each absent or present, in every combination
	v := Ver{Major: vU64("maj"), Minor: vU64("min"), Patch: vU64("pat"), PreRelease: vStr("pre", 2*lp), Build: vStr("build", lb)}
	var n Ver
	var p bool
	var comp uint64
	switch which {
	case 0:
		comp = v.Major
		p = panics(func() { n = v.NextMajor() })
	case 1:
		comp = v.Minor
		p = panics(func() { n = v.NextMinor() })
	case 2:
		comp = v.Patch
		p = panics(func() { n = v.NextPatch() })
	}
	vAssert("panics-iff-component-is-max", p == (comp == 1<<64-1))
	vReach("panics", p)
	if !p {
		vAssert("plain-release", n.PreRelease == "" && n.Build == "")
		vAssert("strictly-above-receiver", n.Compare(v) == 1 && v.Compare(n) == -1)
		switch which {
		case 0:
			vAssert("components", n.Major == v.Major+1 && n.Minor == 0 && n.Patch == 0)
		case 1:
			vAssert("components", n.Major == v.Major && n.Minor == v.Minor+1 && n.Patch == 0)
		case 2:
			vAssert("components", n.Major == v.Major && n.Minor == v.Minor && n.Patch == v.Patch+1)
		}
	}
}

// Latest on two versions that compare equal (same core, pre-releases equal or equal up to leading zeros of a
// trailing number) whose build metadata is absent or present on either side: the result is one of the arguments,
// with that argument's own build
//
//verif:harness C14 quick ba=0..1 bb=0..1 spell=0..1
func H_C14_latestOfEquals(ba int, bb int, spell int) {
	pa := vStr("pre", 2)
	for i := 0; i < 2; i++ {
		vAssume(pa[i] < 0x80)
	}
	vAssume(refSplitPre(pa).valid)
	pb := pa
	if spell == 1 {
		pa, pb = "rc01", "rc1" // spelled differently, compare equal (the pinned trailing-number rule)
	}
	maj, min, pat := vU64("maj"), vU64("min"), vU64("pat")
	x := Ver{Major: maj, Minor: min, Patch: pat, PreRelease: pa, Build: vStr("a.build", ba)}
	y := Ver{Major: maj, Minor: min, Patch: pat, PreRelease: pb, Build: vStr("b.build", 2*bb)}
	vAssume(x.Compare(y) == 0)
	l, m := x.Latest(y), y.Latest(x)
	vAssert("latest-of-equals-is-an-argument", (l == x || l == y) && (m == x || m == y))
	vReach("reached", true)
}

// string helpers: result of comparing the parsed values, error exactly when either text is invalid for the helper
//
//verif:harness C14 quick n=0..6 helper=0..2
//verif:harness C14 thorough n=7..8 helper=0..2
func H_C14_stringHelpers(n int, helper int) {
	in := vBytes("in", n)
	const fixedV, fixedT = "1.2.3-rc.1", "v1.2.3-rc.1"
	ref := refSemver(in)
	valid := ref.ok && !ref.overflow
	var c1, c2, c3 int
	var e1, e2, e3 error
	var l1, l2 Ver
	var le, le2 error
	var other Ver
	var okHere bool
	switch helper {
	case 0:
		c1, e1 = Compare(in, []byte(fixedT))
		c2, e2 = Compare(fixedV, string(in))
		l1, le = Latest(in, fixedV)
		l2, le2 = Latest(fixedT, string(in))
		c3, e3 = Compare(in, string(in)) // the same text on both sides
		other, _ = Parse(fixedV)
		okHere = valid
	case 1:
		c1, e1 = CompareVersion[string, string](string(in), fixedV)
		c2, e2 = CompareVersion[string, string](fixedV, string(in))
		l1, le = LatestVersion(in, fixedV)
		l2, le2 = LatestVersion(fixedV, in)
		c3, e3 = CompareVersion[string, string](string(in), string(in))
		other, _ = Parse(fixedV)
		okHere = valid && !ref.tag
	case 2:
		c1, e1 = CompareTag(in, fixedT)
		c2, e2 = CompareTag(fixedT, in)
		l1, le = LatestTag(in, fixedT)
		l2, le2 = LatestTag(fixedT, string(in))
		c3, e3 = CompareTag(string(in), in)
		other, _ = Parse(fixedT)
		okHere = valid && ref.tag
	}
	vReach("valid-input", okHere)
	vReach("invalid-input", !okHere)
	vAssert("error-iff-invalid", (e1 == nil) == okHere && (e2 == nil) == okHere && (le == nil) == okHere && (le2 == nil) == okHere)
	vAssert("same-text-twice-error-iff-invalid-else-equal", (e3 == nil) == okHere && c3 == 0)
	if okHere {
		pv, _ := Parse(in)
		vAssert("same-as-value-compare", c1 == pv.Compare(other) && c2 == other.Compare(pv))
		vAssert("latest-same-as-value-latest", l1 == pv.Latest(other) && l2 == other.Latest(pv))
	} else {
		vAssert("zero-on-error", c1 == 0 && c2 == 0 && l1 == Ver{} && l2 == Ver{})
	}
}
