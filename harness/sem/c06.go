package sem

const maxIdents = 6
const maxIdentLen = 6

// preRef is a pre-release string split into identifiers (fixed-shape so that symbolic contents merge).
type preRef struct {
	valid   bool
	n       int                            // number of identifiers
	length  [maxIdents]int                 // identifier lengths
	bytes   [maxIdents][maxIdentLen]byte   // identifier bytes, zero padded
	numeric [maxIdents]bool                // identifier consists of digits only
	value   [maxIdents]uint64              // numeric value (identifiers are short: no overflow)
}

func isIdentChar(c byte) bool {
	return (c >= '0' && c <= '9') || (c >= 'A' && c <= 'Z') || (c >= 'a' && c <= 'z') || c == '-'
}

// refSplitPre scans a pre-release string per SemVer 2.0.0 section 9.
func refSplitPre(s string) preRef {
	var r preRef
	r.valid = len(s) > 0
	k, j := 0, 0 // current identifier index, position inside it
	numeric := true
	lead0 := false
	val := uint64(0)
	for i := 0; i < len(s); i++ {
		c := s[i]
		if c == '.' {
			r.valid = r.valid && j > 0 && (!numeric || !lead0 || j == 1)
			if k < maxIdents {
				r.length[k], r.numeric[k], r.value[k] = j, numeric, val
			}
			k++
			j, numeric, lead0, val = 0, true, false, 0
			continue
		}
		r.valid = r.valid && isIdentChar(c)
		if j == 0 {
			lead0 = c == '0'
		}
		if c >= '0' && c <= '9' {
			val = val*10 + uint64(c-'0')
		} else {
			numeric = false
		}
		if k < maxIdents && j < maxIdentLen {
			r.bytes[k][j] = c
		}
		j++
	}
	r.valid = r.valid && j > 0 && (!numeric || !lead0 || j == 1)
	if k < maxIdents {
		r.length[k], r.numeric[k], r.value[k] = j, numeric, val
	}
	r.n = k + 1
	if len(s) == 0 {
		r.n = 0
	}
	return r
}

// cmpIdent compares identifier k of a and b per section 11.4; excluded reports the documented departure
// (both alphanumeric, equal up to a trailing run of digits on both sides).
func cmpIdent(a, b *preRef, k int) (c int, excluded bool) {
	if a.numeric[k] && b.numeric[k] {
		if a.value[k] < b.value[k] {
			return -1, false
		}
		if a.value[k] > b.value[k] {
			return 1, false
		}
		// equal value: identical because leading zeros are not allowed
		return 0, false
	}
	if a.numeric[k] != b.numeric[k] {
		if a.numeric[k] {
			return -1, false
		}
		return 1, false
	}
	// both alphanumeric: ASCII order, shorter prefix first
	la, lb := a.length[k], b.length[k]
	decided := false
	for j := 0; j < maxIdentLen; j++ {
		if decided || (j >= la && j >= lb) {
			continue
		}
		ca, cb := a.bytes[k][j], b.bytes[k][j] // zero padding sorts a shorter identifier first
		if ca != cb {
			decided = true
			if ca < cb {
				c = -1
			} else {
				c = 1
			}
			// tails from the first difference: digits only on both sides?
			tails := true
			for t := j; t < maxIdentLen; t++ {
				if t < la {
					tails = tails && a.bytes[k][t] >= '0' && a.bytes[k][t] <= '9'
				}
				if t < lb {
					tails = tails && b.bytes[k][t] >= '0' && b.bytes[k][t] <= '9'
				}
			}
			excluded = tails
		}
	}
	return c, excluded
}

// refComparePre: precedence of two pre-release strings (empty = release, which ranks highest).
func refComparePre(sa, sb string) (c int, excluded bool) {
	if len(sa) == 0 || len(sb) == 0 {
		switch {
		case len(sa) == 0 && len(sb) == 0:
			return 0, false
		case len(sa) == 0:
			return 1, false
		}
		return -1, false
	}
	a, b := refSplitPre(sa), refSplitPre(sb)
	decided := false
	for k := 0; k < maxIdents; k++ {
		if decided {
			continue
		}
		if k >= a.n && k >= b.n {
			continue
		}
		if k >= a.n {
			c, decided = -1, true
			continue
		}
		if k >= b.n {
			c, decided = 1, true
			continue
		}
		ci, ex := cmpIdent(&a, &b, k)
		if ci != 0 {
			c, excluded, decided = ci, ex, true
		}
	}
	return c, excluded
}

func asciiOnly(s string) bool {
	ok := true
	for i := 0; i < len(s); i++ {
		ok = ok && s[i] < 0x80
	}
	return ok
}

//verif:harness C06 quick la=0..3 lb=0..3
//verif:harness C06 thorough la=4..4 lb=0..4
//verif:harness C06 thorough la=0..3 lb=4..4
func H_C06_preRelease(la int, lb int) {
	a, b := vStr("a", la), vStr("b", lb)
	for i := 0; i < la; i++ {
		vAssume(a[i] < 0x80)
	}
	for i := 0; i < lb; i++ {
		vAssume(b[i] < 0x80)
	}
	va, vb := refSplitPre(a), refSplitPre(b)
	vAssume((la == 0 || va.valid) && (lb == 0 || vb.valid))
	want, excluded := refComparePre(a, b)
	vAssume(!excluded)
	got := DefaultComparePreRelease(a, b)
	vReach("less", want < 0)
	vReach("greater", want > 0)
	vReach("equal", want == 0)
	vAssert("section-11-order", got == want)
	// the value method and latest-of-two agree, for any core and build metadata
	x := Ver{Major: vU64("maj"), Minor: vU64("min"), Patch: vU64("pat"), PreRelease: a, Build: vStr("ba", 1)}
	y := Ver{Major: x.Major, Minor: x.Minor, Patch: x.Patch, PreRelease: b, Build: vStr("bb", 2)}
	vAssert("ver-compare", x.Compare(y) == want)
	l := x.Latest(y)
	if want < 0 {
		vAssert("latest-is-higher", l == y)
	} else {
		vAssert("latest-is-receiver", l == x)
	}
}

//verif:harness C06 quick
func H_C06_core() {
	x := Ver{Major: vU64("a.maj"), Minor: vU64("a.min"), Patch: vU64("a.pat"), PreRelease: vStr("a.pre", 1), Build: vStr("a.b", 1)}
	y := Ver{Major: vU64("b.maj"), Minor: vU64("b.min"), Patch: vU64("b.pat"), PreRelease: vStr("b.pre", 2), Build: vStr("b.b", 0)}
	vAssume(x.Major != y.Major || x.Minor != y.Minor || x.Patch != y.Patch)
	want := 1
	switch {
	case x.Major != y.Major:
		if x.Major < y.Major {
			want = -1
		}
	case x.Minor != y.Minor:
		if x.Minor < y.Minor {
			want = -1
		}
	default:
		if x.Patch < y.Patch {
			want = -1
		}
	}
	vAssert("core-decides-first", x.Compare(y) == want)
	vReach("boundary", x.Major == 1<<64-1 && y.Major == 0)
}

// the specification's own example chain
//
//verif:harness C06 quick
func H_C06_specChain() {
	chain := []string{"1.0.0-alpha", "1.0.0-alpha.1", "1.0.0-alpha.beta", "1.0.0-beta", "1.0.0-beta.2", "1.0.0-beta.11", "1.0.0-rc.1", "1.0.0"}
	for i := 0; i+1 < len(chain); i++ {
		c, err := CompareVersion[string, string](chain[i], chain[i+1])
		vAssert("spec-chain-ascending", err == nil && c == -1)
		c2, err2 := Compare(chain[i+1], chain[i])
		vAssert("spec-chain-descending", err2 == nil && c2 == 1)
	}
}

// numeric identifiers far beyond uint64: k and k (or k+1) symbolic digits after a common "rc." prefix
//
//verif:harness C06 quick k=19..21 extra=0..1
func H_C06_longNumeric(k int, extra int) {
	da, db := vBytes("da", k), vBytes("db", k+extra)
	for i := 0; i < k; i++ {
		vAssume(da[i] >= '0' && da[i] <= '9')
	}
	for i := 0; i < k+extra; i++ {
		vAssume(db[i] >= '0' && db[i] <= '9')
	}
	vAssume(da[0] != '0' && db[0] != '0')
	a := "rc." + string(da)
	b := "rc." + string(db)
	want := 0
	if extra > 0 {
		want = -1 // fewer digits, no leading zeros: smaller
	} else {
		decided := false
		for i := 0; i < k; i++ {
			if !decided && da[i] != db[i] {
				decided = true
				if da[i] < db[i] {
					want = -1
				} else {
					want = 1
				}
			}
		}
	}
	vAssert("numeric-identifiers-compare-numerically", DefaultComparePreRelease(a, b) == want && DefaultComparePreRelease(b, a) == -want)
	x := Ver{Major: 1, PreRelease: a}
	y := Ver{Major: 1, PreRelease: b}
	vAssert("ver-compare", x.Compare(y) == want)
	vReach("less", want < 0)
	vReach("equal", want == 0)
}
