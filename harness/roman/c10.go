package roman

func foldUp(c byte) byte {
	if c >= 'a' && c <= 'z' {
		return c - ('a' - 'A')
	}
	return c
}

// refGroup: does in[o:o+l] form one decimal-digit group with symbols (one, five, ten)? Returns the digit value.
func refGroup(in []byte, o, l int, one, five, ten byte) (bool, uint64) {
	if l == 0 {
		return true, 0
	}
	allOnes := func(from, to int) bool {
		ok := true
		for i := from; i < to; i++ {
			ok = ok && foldUp(in[i]) == one
		}
		return ok
	}
	if l <= 4 && allOnes(o, o+l) {
		return true, uint64(l)
	}
	if l <= 5 && foldUp(in[o]) == five && allOnes(o+1, o+l) {
		return true, uint64(4 + l)
	}
	if l == 2 && foldUp(in[o]) == one && foldUp(in[o+1]) == five {
		return true, 4
	}
	if l == 2 && foldUp(in[o]) == one && foldUp(in[o+1]) == ten {
		return true, 9
	}
	return false, 0
}

// refRoman: independent recogniser/evaluator over every split M^a | hundreds | tens | units of the input.
func refRoman(in []byte) (bool, uint64) {
	n := len(in)
	acc := false
	val := uint64(0)
	for a := 0; a <= n; a++ {
		ms := true
		for i := 0; i < a; i++ {
			ms = ms && foldUp(in[i]) == 'M'
		}
		for b := 0; b <= 5 && a+b <= n; b++ {
			hOK, hv := refGroup(in, a, b, 'C', 'D', 'M')
			for c := 0; c <= 5 && a+b+c <= n; c++ {
				d := n - a - b - c
				if d > 5 {
					continue
				}
				tOK, tv := refGroup(in, a+b, c, 'X', 'L', 'C')
				uOK, uv := refGroup(in, a+b+c, d, 'I', 'V', 'X')
				if ms && hOK && tOK && uOK && !acc {
					acc = true
					val = uint64(a)*1000 + hv*100 + tv*10 + uv
				}
			}
		}
	}
	return acc, val
}

func errorsIs(err, target error) bool {
	for err != nil {
		if err == target {
			return true
		}
		u, ok := err.(interface{ Unwrap() error })
		if !ok {
			return false
		}
		err = u.Unwrap()
	}
	return false
}

//verif:harness C10 quick n=0..8
//verif:harness C10 thorough n=9..11
func H_C10_parse(n int) {
	in := vBytes("in", n)
	r := Rule(vU8("rule") & 1)
	v, err := DefaultParser(in, r)
	ok, want := refRoman(in)
	if n == 0 {
		ok = r&RuleDisableEmptyAsZero == 0
	}
	vReach("accepted", err == nil)
	vReach("rejected", err != nil)
	vAssert("accept-iff-grammar", (err == nil) == ok)
	if err == nil {
		vAssert("value", uint64(v) == want)
	} else {
		_, typed := err.(*NumberFormatError[[]byte])
		vAssert("typed-zero", typed && v == 0)
	}
	verr := Valid(in, r)
	vAssert("valid-iff-parses", (verr == nil) == (err == nil))
	sv, serr := DefaultParser(string(in), r)
	vAssert("string-agrees", (serr == nil) == (err == nil) && sv == v)
	if serr != nil {
		// the typed error a caller with string input can extract (errors.As with the input's own type)
		_, typedS := serr.(*NumberFormatError[string])
		vAssert("string-typed-zero", typedS && sv == 0)
	}
	u := Number(vU64("prev")) // whatever the variable held before
	uerr := u.UnmarshalText(in)
	vAssert("unmarshaltext", (uerr == nil) == (ok || n == 0) && (uerr != nil || uint64(u) == want))
}

// the value does not depend on letter case: flipping bit 5 of any subset of letters keeps the result
//
//verif:harness C10 quick n=1..6
//verif:harness C10 thorough n=7..8
func H_C10_caseInvariant(n int) {
	in := vBytes("in", n)
	flip := vU16("flip")
	other := make([]byte, n)
	for i := 0; i < n; i++ {
		c := in[i]
		isLetter := (c >= 'A' && c <= 'Z') || (c >= 'a' && c <= 'z')
		if isLetter && flip>>uint(i)&1 == 1 {
			c ^= 0x20
		}
		other[i] = c
	}
	v1, e1 := DefaultParser(in, 0)
	v2, e2 := DefaultParser(other, 0)
	vReach("both-accepted", e1 == nil && e2 == nil && flip != 0)
	vAssert("case-invariant", (e1 == nil) == (e2 == nil) && v1 == v2)
}

// "unless the limit forbids it": the documented numerals are accepted up to and including the configured input
// length, with the limit symbolic around the length of the text (0 disables it)
//
//verif:harness C10 quick n=1..5
func H_C10_atTheLimit(n int) {
	in := vBytes("in", n)
	max := vInt("max")
	vAssume(max >= 0 && max <= 8)
	save := MaxInputLength
	MaxInputLength = max
	v, err := DefaultParser(in, 0)
	verr := Valid(in, 0)
	MaxInputLength = save
	ok, want := refRoman(in)
	within := max == 0 || n <= max
	vReach("accepted-at-exactly-the-limit", err == nil && max == n)
	vReach("too-long", !within)
	vAssert("accept-iff-grammar-and-within-limit", (err == nil) == (ok && within))
	vAssert("valid-agrees", (verr == nil) == (err == nil))
	if err == nil {
		vAssert("value", uint64(v) == want)
	}
	if !within {
		vAssert("too-long-sentinel", err != nil && errorsIs(err, ErrInputTooLong))
	}
}
