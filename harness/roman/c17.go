package roman

func sameChain(a, b error) bool {
	for {
		if a == nil || b == nil {
			return a == nil && b == nil
		}
		if a == b {
			return true
		}
		ua, oka := a.(interface{ Unwrap() error })
		ub, okb := b.(interface{ Unwrap() error })
		if !oka || !okb {
			return false
		}
		a, b = ua.Unwrap(), ub.Unwrap()
	}
}

//verif:harness C17 quick n=0..7
func H_C17_roman(n int) {
	in := vBytes("in", n)
	snap := string(in)
	pre := Number(vU64("pre"))
	v := pre
	err := v.UnmarshalText(in)
	// UnmarshalText is the parser under rule 0: same verdict, the parsed value is what gets stored (whatever the
	// receiver held before), and a refusal wraps the parser's error (errors.Is / errors.As keep working)
	pv, perr := DefaultParser(in, 0)
	vAssert("unmarshal-agrees-with-parser", (err == nil) == (perr == nil))
	if err == nil {
		vAssert("successful-unmarshal-stores-the-parsed-value", v == pv)
	} else {
		w, wraps := err.(interface{ Unwrap() error })
		vAssert("unmarshal-error-wraps-the-parser-error", wraps && w.Unwrap() != nil)
		for _, sentinel := range []error{ErrInputTooLong} {
			vAssert("same-sentinels-as-the-parser", errorsIs(err, sentinel) == errorsIs(perr, sentinel))
		}
	}
	vReach("ok", err == nil)
	vReach("failed", err != nil)
	if err != nil {
		vAssert("receiver-untouched-on-error", v == pre)
	}
	vAssert("input-not-modified", string(in) == snap)
	r := Rule(vU8("rule") & 1)
	bv, berr := DefaultParser(in, r)
	sv, serr := DefaultParser(string(in), r)
	vAssert("string-bytes-same-value", bv == sv && (berr == nil) == (serr == nil))
	if berr != nil && serr != nil {
		be, bok := berr.(*NumberFormatError[[]byte])
		se, sok := serr.(*NumberFormatError[string])
		vAssert("string-bytes-same-error", bok && sok && be.Func == se.Func && string(be.Input) == se.Input && sameChain(be.Err, se.Err))
	}
	vAssert("valid-string-bytes-agree", (Valid(in, r) == nil) == (Valid(string(in), r) == nil))
}
