package roman

//verif:harness C18 quick n=0..7
//verif:harness C18 thorough n=8..8
func H_C18_totalRoman(n int) {
	vMergeOutcomes()
	in := vBytes("in", n)
	r := Rule(vInt("rule"))
	max := vInt("max")
	vAssume(max >= 0)
	save := MaxInputLength
	MaxInputLength = max
	_, e1 := DefaultParser(in, r)
	_, e2 := DefaultParser(string(in), r)
	e3 := Valid(in, r)
	e4 := Valid(string(in), r)
	var v Number
	e5 := v.UnmarshalText(in)
	MaxInputLength = save
	vReach("some-error", e1 != nil || e2 != nil || e3 != nil || e4 != nil || e5 != nil)
	vAssert("returns-normally", true)
}

//verif:harness C18 quick n=1..8
//verif:harness C18 quick n=127..129
//verif:harness C18 quick n=1280..1280
func H_C18_limitRoman(n int) {
	var in []byte
	if n <= 8 {
		in = vBytes("in", n)
	} else {
		in = make([]byte, n)
		for i := range in {
			in[i] = 'M'
		}
	}
	max := vInt("max")
	vAssume(max >= 0 && max <= 1<<31)
	r := Rule(vU8("rule") & 1)
	save := MaxInputLength
	MaxInputLength = max
	_, err := DefaultParser(in, r)
	verr := Valid(string(in), r)
	MaxInputLength = save
	tooLong := max != 0 && n > max
	vReach("too-long", tooLong)
	vReach("within-limit", !tooLong)
	if tooLong {
		pe, ok := err.(*NumberFormatError[[]byte])
		vAssert("too-long-error", err != nil && errorsIs(err, ErrInputTooLong) && ok && len(pe.Input) == 0)
		ve, vok := verr.(*NumberFormatError[string])
		vAssert("too-long-error-valid", verr != nil && errorsIs(verr, ErrInputTooLong) && vok && len(ve.Input) == 0)
	} else {
		vAssert("never-too-long-within-limit", err == nil || !errorsIs(err, ErrInputTooLong))
		vAssert("never-too-long-within-limit-valid", verr == nil || !errorsIs(verr, ErrInputTooLong))
		if n > 8 {
			vAssert("long-valid-numeral-accepted", err == nil && verr == nil)
		}
	}
}
