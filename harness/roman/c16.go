package roman

//verif:harness C16 quick p=0..1 spare=0..1
//verif:harness C16 quick p=3..3 spare=0..0
//verif:harness C16 quick p=2..2 spare=5..5
//verif:harness C16 quick p=2..2 spare=64..64
//verif:harness C16 thorough p=2..8 spare=0..1
//verif:harness C16 thorough p=8..8 spare=14..18
func H_C16_roman(p int, spare int) {
	prefix := vBytes("prefix", p)
	buf := make([]byte, p, p+spare)
	copy(buf, prefix)
	snap := string(prefix)
	n := Number(vU64("n"))
	vAssume(n < 3000)
	f := Format(vU8("f") & 127)
	vKnown("C16/roman-lowercases-prefix", f&FormatLowerCase != 0 && n != 0 && hasUpperRomanLetter(prefix))
	r, err := DefaultFormatter(buf, n, f)
	base, _ := DefaultFormatter(nil, n, f)
	vAssert("no-error", err == nil)
	vAssert("prefix-kept", len(r) >= p && string(r[:p]) == snap)
	vAssert("suffix-is-plain-output", len(r) >= p && string(r[p:]) == string(base))
	vAssert("caller-bytes-untouched", string(buf[:p]) == snap)
	vReach("lower", f&FormatLowerCase != 0 && n > 0)
	vReach("zero", n == 0)
}

func hasUpperRomanLetter(b []byte) bool {
	for _, c := range b {
		switch c {
		case 'I', 'V', 'X', 'L', 'C', 'D', 'M':
			return true
		}
	}
	return false
}
