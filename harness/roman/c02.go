package roman

// refCanonGroup: is in[o:o+l] the canonical rendering of one decimal digit (symbols one/five/ten in the
// exact case given), with the subtractive forms replaced by additive ones when long4/long9 are set?
func refCanonGroup(in []byte, o, l int, one, five, ten byte, long4, long9 bool) (bool, uint64) {
	if l == 0 {
		return true, 0
	}
	ones := func(from, to int) bool {
		ok := true
		for i := from; i < to; i++ {
			ok = ok && in[i] == one
		}
		return ok
	}
	// 1..3 (and 4 when long): I, II, III, IIII
	if l <= 3 && ones(o, o+l) {
		return true, uint64(l)
	}
	if l == 4 && long4 && ones(o, o+4) {
		return true, 4
	}
	// 5..8 (and 9 when long): V, VI, VII, VIII, VIIII
	if l <= 4 && in[o] == five && ones(o+1, o+l) {
		return true, uint64(4 + l)
	}
	if l == 5 && long9 && in[o] == five && ones(o+1, o+5) {
		return true, 9
	}
	if l == 2 && !long4 && in[o] == one && in[o+1] == five {
		return true, 4
	}
	if l == 2 && !long9 && in[o] == one && in[o+1] == ten {
		return true, 9
	}
	return false, 0
}

func lowerIf(c byte, lower bool) byte {
	if lower {
		return c + ('a' - 'A')
	}
	return c
}

// refCanon: text is exactly the canonical numeral of some value under format f; returns that value.
func refCanon(in []byte, f Format) (bool, uint64) {
	n := len(in)
	lower := f&FormatLowerCase != 0
	L := func(c byte) byte { return lowerIf(c, lower) }
	acc := false
	val := uint64(0)
	for a := 0; a <= n; a++ {
		ms := true
		for i := 0; i < a; i++ {
			ms = ms && in[i] == L('M')
		}
		for b := 0; b <= 5 && a+b <= n; b++ {
			hOK, hv := refCanonGroup(in, a, b, L('C'), L('D'), L('M'), f&FormatLong400 != 0, f&FormatLong900 != 0)
			for c := 0; c <= 5 && a+b+c <= n; c++ {
				d := n - a - b - c
				if d > 5 {
					continue
				}
				tOK, tv := refCanonGroup(in, a+b, c, L('X'), L('L'), L('C'), f&FormatLong40 != 0, f&FormatLong90 != 0)
				uOK, uv := refCanonGroup(in, a+b+c, d, L('I'), L('V'), L('X'), f&FormatLong4 != 0, f&FormatLong9 != 0)
				if ms && hOK && tOK && uOK && !acc {
					acc = true
					val = uint64(a)*1000 + hv*100 + tv*10 + uv
				}
			}
		}
	}
	return acc, val
}

type vState struct{ buf []byte }

func (s *vState) Write(b []byte) (int, error) { s.buf = append(s.buf, b...); return len(b), nil }
func (s *vState) Width() (int, bool)          { return 0, false }
func (s *vState) Precision() (int, bool)      { return 0, false }
func (s *vState) Flag(c int) bool             { return false }

//verif:harness C02 quick t=0..2
//verif:harness C02 thorough t=3..12
func H_C02_roundtrip(t int) {
	n := Number(vU64("n"))
	vAssume(uint64(n) >= uint64(t)*1000 && uint64(n) < uint64(t+1)*1000)
	f := Format(vU8("f") & 127)
	text, err := DefaultFormatter(nil, n, f)
	vAssert("format-no-error", err == nil)
	ok, val := refCanon(text, f)
	vAssert("canonical-numeral", ok && val == uint64(n))
	vAssert("zero-iff-empty", (n == 0) == (len(text) == 0))
	back, perr := DefaultParser(text, 0)
	vAssert("parses-back", perr == nil && back == n)
	vAssert("valid", Valid(text, 0) == nil)
	sback, serr := DefaultParser(string(text), 0)
	vAssert("parses-back-string", serr == nil && sback == n)
	vReach("lower-long", f&FormatLowerCase != 0 && f&FormatLong4 != 0 && uint64(n)%10 == 4)
	vReach("nine-hundred", uint64(n)%1000 >= 900)
}

// MarshalText / String / fmt verbs follow DefaultFormat and the verb table
//
//verif:harness C02 quick
func H_C02_paths() {
	n := Number(vU64("n"))
	vAssume(n < 2000)
	df := Format(vU8("df") & 127)
	save := DefaultFormat
	DefaultFormat = df
	want, _ := DefaultFormatter(nil, n, df)
	mt, merr := n.MarshalText()
	str := n.String()
	var sv vState
	n.Format(&sv, 's')
	DefaultFormat = save
	vAssert("marshaltext", merr == nil && string(mt) == string(want))
	vAssert("string", str == string(want))
	vAssert("verb-s", string(sv.buf) == string(want))
	var u Number
	uerr := u.UnmarshalText(want)
	vAssert("unmarshaltext", uerr == nil && u == n)
	vReach("nonzero", n > 0)
}

//verif:harness C02 quick
func H_C02_verbs() {
	n := Number(vU64("n"))
	vAssume(n < 2000)
	var sR, sr, sL, sl vState
	n.Format(&sR, 'R')
	n.Format(&sr, 'r')
	n.Format(&sL, 'L')
	n.Format(&sl, 'l')
	wR, _ := DefaultFormatter(nil, n, 0)
	wr, _ := DefaultFormatter(nil, n, FormatLowerCase)
	wL, _ := DefaultFormatter(nil, n, FormatLong)
	wl, _ := DefaultFormatter(nil, n, FormatLong|FormatLowerCase)
	vAssert("R", string(sR.buf) == string(wR))
	vAssert("r", string(sr.buf) == string(wr))
	vAssert("L", string(sL.buf) == string(wL))
	vAssert("l", string(sl.buf) == string(wl))
	vReach("nonzero", n > 0)
}
