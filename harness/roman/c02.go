package roman

// refCanonGroup: is in[o:o+l] the canonical rendering of one decimal digit (symbols one/five/ten in the
// exact case given), with the subtractive forms replaced by additive ones when long4/long9 are set?
func refCanonGroup(in []byte, o, l int, one, five, ten byte, long4, long9 bool) (bool, uint64) {
	if l == 0 {
		return true, 0
	}
	ones := func(from, to int) bool {
		ok := true
		for i := from; i < to; i++ {
			ok = ok && in[i] == one
		}
		return ok
	}
	// 1..3 (and 4 when long): I, II, III, IIII
	if l <= 3 && ones(o, o+l) {
		return true, uint64(l)
	}
	if l == 4 && long4 && ones(o, o+4) {
		return true, 4
	}
	// 5..8 (and 9 when long): V, VI, VII, VIII, VIIII
	if l <= 4 && in[o] == five && ones(o+1, o+l) {
		return true, uint64(4 + l)
	}
	if l == 5 && long9 && in[o] == five && ones(o+1, o+5) {
		return true, 9
	}
	if l == 2 && !long4 && in[o] == one && in[o+1] == five {
		return true, 4
	}
	if l == 2 && !long9 && in[o] == one && in[o+1] == ten {
		return true, 9
	}
	return false, 0
}

func lowerIf(c byte, lower bool) byte {
	if lower {
		return c + ('a' - 'A')
	}
	return c
}

// refCanon: text is exactly the canonical numeral of some value under format f; returns that value.
func refCanon(in []byte, f Format) (bool, uint64) {
	n := len(in)
	lower := f&FormatLowerCase != 0
	L := func(c byte) byte { return lowerIf(c, lower) }
	acc := false
	val := uint64(0)
	for a := 0; a <= n; a++ {
		ms := true
		for i := 0; i < a; i++ {
			ms = ms && in[i] == L('M')
		}
		for b := 0; b <= 5 && a+b <= n; b++ {
			hOK, hv := refCanonGroup(in, a, b, L('C'), L('D'), L('M'), f&FormatLong400 != 0, f&FormatLong900 != 0)
			for c := 0; c <= 5 && a+b+c <= n; c++ {
				d := n - a - b - c
				if d > 5 {
					continue
				}
				tOK, tv := refCanonGroup(in, a+b, c, L('X'), L('L'), L('C'), f&FormatLong40 != 0, f&FormatLong90 != 0)
				uOK, uv := refCanonGroup(in, a+b+c, d, L('I'), L('V'), L('X'), f&FormatLong4 != 0, f&FormatLong9 != 0)
				if ms && hOK && tOK && uOK && !acc {
					acc = true
					val = uint64(a)*1000 + hv*100 + tv*10 + uv
				}
			}
		}
	}
	return acc, val
}

type vState struct{ buf []byte }

func (s *vState) Write(b []byte) (int, error) { s.buf = append(s.buf, b...); return len(b), nil }
func (s *vState) Width() (int, bool)          { return 0, false }
func (s *vState) Precision() (int, bool)      { return 0, false }
func (s *vState) Flag(c int) bool             { return false }

//verif:harness C02 quick t=0..2
//verif:harness C02 quick t=65..65
//verif:harness C02 thorough t=3..12
//verif:harness C02 thorough t=32..32
//verif:harness C02 thorough t=64..64
//verif:harness C02 thorough t=100..100
//verif:harness C02 thorough t=127..127
func H_C02_roundtrip(t int) {
	vMergeOutcomes()
	n := Number(vU64("n"))
	vAssume(uint64(n) >= uint64(t)*1000 && uint64(n) < uint64(t+1)*1000)
	f := Format(vU8("f") & 127)
	text, err := DefaultFormatter(nil, n, f)
	vAssert("format-no-error", err == nil)
	ok, val := refCanon(text, f)
	vAssert("canonical-numeral", ok && val == uint64(n))
	vAssert("zero-iff-empty", (n == 0) == (len(text) == 0))
	if len(text) <= MaxInputLength { // the property speaks of numerals that fit within the parser's input limit
		back, perr := DefaultParser(text, 0)
		vAssert("parses-back", perr == nil && back == n)
		vAssert("valid", Valid(text, 0) == nil)
		sback, serr := DefaultParser(string(text), 0)
		vAssert("parses-back-string", serr == nil && sback == n)
		vReach("fits-the-input-limit", true)
	}
	vReach("lower-long", f&FormatLowerCase != 0 && f&FormatLong4 != 0 && uint64(n)%10 == 4)
	vReach("nine-hundred", uint64(n)%1000 >= 900)
}

// MarshalText / String / %s follow DefaultFormat; the canonical numeral of a value under given flags is unique,
// so "canonical for df with value n" pins the exact bytes without formatting twice.
//
//verif:harness C02 quick path=0..2
func H_C02_paths(path int) {
	vMergeOutcomes()
	n := Number(vU64("n"))
	vAssume(n < 2000)
	df := Format(vU8("df") & 127)
	save := DefaultFormat
	DefaultFormat = df
	var out []byte
	var merr error
	switch path {
	case 0:
		out, merr = n.MarshalText()
	case 1:
		out = []byte(n.String())
	case 2:
		var sv vState
		n.Format(&sv, 's')
		out = sv.buf
	}
	DefaultFormat = save
	ok, val := refCanon(out, df)
	vAssert("canonical-under-DefaultFormat", merr == nil && ok && val == uint64(n))
	var u Number
	uerr := u.UnmarshalText(out)
	vAssert("unmarshaltext", uerr == nil && u == n)
	vReach("nonzero-lower", n > 0 && df&FormatLowerCase != 0)
}

// every long form, written out bit by bit (not through the package's own FormatLong / FormatLong9x unions, which
// are part of what is being checked)
const allLongForms = FormatLong4 | FormatLong9 | FormatLong40 | FormatLong90 | FormatLong400 | FormatLong900

//verif:harness C02 quick verb=0..3
func H_C02_verbs(verb int) {
	vMergeOutcomes()
	n := Number(vU64("n"))
	vAssume(n < 2000)
	vAssert("FormatLong-is-every-long-form", FormatLong == allLongForms)
	var sv vState
	var f Format
	switch verb {
	case 0:
		n.Format(&sv, 'R')
		f = 0
	case 1:
		n.Format(&sv, 'r')
		f = FormatLowerCase
	case 2:
		n.Format(&sv, 'L')
		f = allLongForms
	case 3:
		n.Format(&sv, 'l')
		f = allLongForms | FormatLowerCase
	}
	ok, val := refCanon(sv.buf, f)
	vAssert("verb-format", ok && val == uint64(n))
	vReach("nonzero", n > 0)
}

// the longest numerals the default input limit admits (128 bytes): concrete values at the boundary
//
//verif:harness C02 quick
func H_C02_longest() {
	for _, n := range []Number{128000, 127001, 116888, 127888, 99999} {
		for _, f := range []Format{0, FormatLowerCase, FormatLong} {
			text, _ := DefaultFormatter(nil, n, f)
			if len(text) > MaxInputLength {
				continue
			}
			back, err := DefaultParser(text, 0)
			vAssert("boundary-numeral-parses-back", err == nil && back == n)
			vAssert("boundary-numeral-valid", Valid(string(text), 0) == nil)
		}
	}
	t128, _ := DefaultFormatter(nil, 128000, 0)
	vAssert("128-byte-numeral", len(t128) == 128)
}
