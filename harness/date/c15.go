package date

//verif:harness C15 quick
func H_C15_fromTo() {
	from, fy, fm, fd := symDate("from", 0, 9999)
	to, ty, tm, td := symDate("to", 0, 9999)
	p, py, pm, pd := symDate("p", 0, 9999)
	of, ot, op := refKey(fy, fm, fd), refKey(ty, tm, td), refKey(py, pm, pd)
	fv, tv := from, to
	f, err := FilterFromTo(&fv, &tv)
	vAssert("error-iff-from-after-to", (err != nil) == (of > ot))
	vReach("error", err != nil)
	if err != nil {
		vAssert("sentinel", errorsIs(err, ErrInvalidFromOrTo))
		vAssert("nil-filter", f == nil)
		return
	}
	vReach("inside", of <= op && op <= ot)
	vReach("outside", op < of || op > ot)
	vAssert("contains-iff-in-interval", f.Contains(p) == (of <= op && op <= ot))
	// the caller's variables change afterwards: the filter keeps its bounds
	o1, _, _, _ := symDate("o1", 0, 9999)
	o2, _, _, _ := symDate("o2", 0, 9999)
	fv, tv = o1, o2
	vAssert("keeps-bounds", f.Contains(p) == (of <= op && op <= ot))
}

//verif:harness C15 quick
func H_C15_open() {
	b, by, bm, bd := symDate("b", 0, 9999)
	p, py, pm, pd := symDate("p", 0, 9999)
	ob, op := refKey(by, bm, bd), refKey(py, pm, pd)
	bv := b
	f1, e1 := FilterFromTo(&bv, nil)
	f2, e2 := FilterFromTo(nil, &bv)
	f3, e3 := FilterFromTo(nil, nil)
	vAssert("no-error", e1 == nil && e2 == nil && e3 == nil)
	o, _, _, _ := symDate("o", 0, 9999)
	bv = o
	vAssert("from-only", f1.Contains(p) == (op >= ob))
	vAssert("to-only", f2.Contains(p) == (op <= ob))
	vAssert("unbounded", f3.Contains(p))
	vReach("before", op < ob)
	vReach("after", op > ob)
	vReach("equal", op == ob)
}
