package date

//verif:harness C11 quick
func H_C11_marshal() {
	d, y, m, dd := symDate("d", -999999999, 999999999)
	b, err := d.MarshalBinary()
	vAssert("no-error", err == nil)
	vAssert("len-7", len(b) == 7)
	if len(b) == 7 {
		u := uint32(int32(y))
		vAssert("layout", b[0] == 1 && b[1] == byte(u>>24) && b[2] == byte(u>>16) && b[3] == byte(u>>8) && b[4] == byte(u) && b[5] == byte(m) && b[6] == byte(dd))
		back := Date{year: vI32("prev.year"), month: vU8("prev.month"), day: vU8("prev.day")} // whatever the variable held before
		uerr := back.UnmarshalBinary(b)
		vAssert("roundtrip", uerr == nil && back.Equal(d) && back == d)
		// "always": the caller owns the returned bytes; scribbling on them must not change what a later call yields
		junk := vBytes("junk", 7)
		copy(b, junk)
		b2, err2 := d.MarshalBinary()
		vAssert("second-call-unaffected-by-writes-to-the-first-result", err2 == nil && len(b2) == 7 &&
			b2[0] == 1 && b2[1] == byte(u>>24) && b2[2] == byte(u>>16) && b2[3] == byte(u>>8) && b2[4] == byte(u) && b2[5] == byte(m) && b2[6] == byte(dd))
		if len(b2) == 7 {
			b2[0] = junk[1]
			vAssert("first-result-not-shared-with-the-second", b[0] == junk[0])
		}
	}
	vReach("negative-year", y < 0)
	vReach("leap-day", m == 2 && dd == 29)
}

//verif:harness C11 quick n=0..16
func H_C11_unmarshal(n int) {
	data := vBytes("data", n)
	pre := Date{year: vI32("pre.year"), month: vU8("pre.month"), day: vU8("pre.day")}
	d := pre
	err := d.UnmarshalBinary(data)
	vKnown("C11/unvalidated-month-day", n == 7 && data[0] == 1 && !refValid(int(int32(uint32(data[1])<<24|uint32(data[2])<<16|uint32(data[3])<<8|uint32(data[4]))), int(data[5]), int(data[6])))
	switch {
	case n == 0:
		vAssert("empty-invalid-length", err != nil && errorsIs(err, ErrInvalidLength))
	case data[0] != 1:
		vAssert("unsupported-version", err != nil && errorsIs(err, ErrUnsupportedVersion))
	case n != 7:
		vAssert("invalid-length", err != nil && errorsIs(err, ErrInvalidLength))
	}
	if n == 7 && data[0] == 1 {
		wy := int(int32(uint32(data[1])<<24 | uint32(data[2])<<16 | uint32(data[3])<<8 | uint32(data[4])))
		if refValid(wy, int(data[5]), int(data[6])) {
			vAssert("real-dates-are-accepted", err == nil)
		}
	}
	if err != nil {
		vReach("rejected", true)
		vAssert("receiver-untouched-on-error", d == pre)
	} else {
		vReach("accepted", true)
		vAssert("accepted-only-length-7-version-1", n == 7 && data[0] == 1)
		y, m, dd := d.Date()
		vAssert("accepted-is-real-calendar-date", refValid(y, int(m), dd))
		if n == 7 {
			wy := int(int32(uint32(data[1])<<24 | uint32(data[2])<<16 | uint32(data[3])<<8 | uint32(data[4])))
			if refValid(wy, int(data[5]), int(data[6])) {
				vAssert("decoded-components", y == wy && int(m) == int(data[5]) && dd == int(data[6]))
			}
		}
	}
}
