package date

//verif:harness C18 quick n=0..9
//verif:harness C18 thorough n=10..10
func H_C18_totalDate(n int) {
	vMergeOutcomes()
	in := vBytes("in", n)
	r := Rule(vInt("rule"))
	max := vInt("max")
	vAssume(max >= 0)
	save := MaxInputLength
	MaxInputLength = max
	_, e1 := DefaultParser(in, r)
	_, e2 := DefaultParser(string(in), r)
	var d Date
	e3 := d.UnmarshalText(in)
	e4 := d.UnmarshalBinary(in)
	e5 := d.Scan(in)
	MaxInputLength = save
	vReach("some-error", e1 != nil || e2 != nil || e3 != nil || e4 != nil || e5 != nil)
	vAssert("returns-normally", true)
}

func fillerDate(n int) []byte {
	// a valid extended date with a long year when it fits, else digits
	b := make([]byte, n)
	for i := range b {
		b[i] = '1'
	}
	if n >= 10 && n <= 15 {
		copy(b[n-6:], "-01-01")
	}
	return b
}

//verif:harness C18 quick n=1..2
//verif:harness C18 quick n=9..12
//verif:harness C18 quick n=15..16
//verif:harness C18 quick n=100..100
//verif:harness C18 thorough n=3..8
func H_C18_limitDate(n int) {
	var in []byte
	if n <= 11 {
		in = vBytes("in", n)
	} else {
		in = fillerDate(n)
	}
	max := vInt("max")
	vAssume(max >= 0 && max <= 1<<31)
	r := Rule(vU8("rule") & 1)
	save := MaxInputLength
	MaxInputLength = max
	_, err := DefaultParser(in, r)
	_, serr := DefaultParser(string(in), r)
	MaxInputLength = save
	tooLong := max != 0 && n > max
	vReach("too-long", tooLong)
	vReach("within-limit", !tooLong)
	if tooLong {
		pe, ok := err.(*ParseError[[]byte])
		vAssert("too-long-error", err != nil && errorsIs(err, ErrInputTooLong) && ok && len(pe.Input) == 0)
		se, sok := serr.(*ParseError[string])
		vAssert("too-long-error-string", serr != nil && errorsIs(serr, ErrInputTooLong) && sok && len(se.Input) == 0)
	} else {
		vAssert("never-too-long-within-limit", err == nil || !errorsIs(err, ErrInputTooLong))
		vAssert("never-too-long-within-limit-string", serr == nil || !errorsIs(serr, ErrInputTooLong))
	}
}
