package date

// Independent calendar helpers for the harnesses (no code shared with the implementation or with time).

func refLeap(y int) bool {
	// proleptic Gregorian; y may be <= 0 (astronomical numbering); shifted by a multiple of 400 to stay unsigned
	u := uint64(y + 4000000000)
	return (u%4 == 0 && u%100 != 0) || u%400 == 0
}

func refDaysIn(y, m int) int {
	switch m {
	case 4, 6, 9, 11:
		return 30
	case 2:
		if refLeap(y) {
			return 29
		}
		return 28
	}
	return 31
}

func refValid(y, m, d int) bool {
	return m >= 1 && m <= 12 && d >= 1 && d <= refDaysIn(y, m)
}

// refOrdinal: days since 0001-01-01 for a valid date with y >= -4000000000 (Rata Die style, March-based).
func refOrdinal(y, m, d int) int {
	// shift so that all divisions are on non-negative numbers
	const shift = 4000000000 // multiple of 400
	yy := y + shift
	if m <= 2 {
		yy--
		m += 12
	}
	// days before year yy (March-based) + days before month + day
	n := 365*yy + yy/4 - yy/100 + yy/400 + (153*(m-3)+2)/5 + d - 1
	// ordinal of 0001-01-01 in the same scale
	const y1 = 1 + shift - 1 // January of year 1 counts as month 13 of year 0
	base := 365*y1 + y1/4 - y1/100 + y1/400 + (153*(13-3)+2)/5 + 1 - 1
	return n - base
}

// mkDate builds a Date value directly from its fields, bypassing every constructor.
func mkDate(y, m, d int) Date {
	return Date{year: int32(y - 1), month: uint8(m - 1), day: uint8(d - 1)}
}

// symDate returns an arbitrary valid calendar date with year in [ymin, ymax].
func symDate(name string, ymin, ymax int) (Date, int, int, int) {
	y, m, d := vInt(name+".y"), vInt(name+".m"), vInt(name+".d")
	vAssume(y >= ymin && y <= ymax)
	vAssume(refValid(y, m, d))
	return mkDate(y, m, d), y, m, d
}

func errorsIs(err, target error) bool {
	for err != nil {
		if err == target {
			return true
		}
		u, ok := err.(interface{ Unwrap() error })
		if !ok {
			return false
		}
		err = u.Unwrap()
	}
	return false
}

// refKey is an order-preserving key for valid dates (chronological order = numeric order of the key);
// it is cheaper for a solver than the day ordinal and is itself tied to refOrdinal by the C07 lemma harness.
func refKey(y, m, d int) int { return (y*16+m)*32 + d }

// refOrdinalJ: days since 0001-01-01, January-based closed form (|y| <= 2^33).
func refOrdinalJ(y, m, d int) int {
	const shift = 400 * 21474837
	a := uint64(y + (shift - 1))
	days := int(365*a+a/4-a/100+a/400) - (shift/400)*146097
	cum := [13]int{0, 0, 31, 59, 90, 120, 151, 181, 212, 243, 273, 304, 334}
	off := cum[12]
	for k := 11; k >= 1; k-- {
		if m == k {
			off = cum[k]
		}
	}
	adj := 0
	leapLate := refLeapJ(y) && m > 2
	if leapLate {
		adj = 1
	}
	return days + (off + adj) + (d - 1)
}

func refLeapJ(y int) bool {
	u := uint64(y + 400*21474837)
	return (u%4 == 0 && u%100 != 0) || u%400 == 0
}
