package date

//verif:harness C16 quick p=0..3 spare=0..1
//verif:harness C16 quick p=2..2 spare=10..10
//verif:harness C16 quick p=2..2 spare=64..64
//verif:harness C16 thorough p=4..8 spare=0..1
//verif:harness C16 thorough p=8..8 spare=7..11
func H_C16_date(p int, spare int) {
	prefix := vBytes("prefix", p)
	buf := make([]byte, p, p+spare)
	copy(buf, prefix)
	snap := string(prefix)
	d, _, _, _ := symDate("d", 0, 9999)
	f := Format(vU8("f") & 1)
	r, err := DefaultFormatter(buf, d, f)
	base, _ := DefaultFormatter(nil, d, f)
	vAssert("no-error", err == nil)
	vAssert("prefix-kept", len(r) >= p && string(r[:p]) == snap)
	vAssert("suffix-is-plain-output", len(r) >= p && string(r[p:]) == string(base))
	vAssert("caller-bytes-untouched", string(buf[:p]) == snap)
	vReach("basic", f == FormatBasic)
}

// years whose text is longer than the usual ten characters, with spare capacity just below, at and above what the
// text needs (a formatter that sizes its scratch space for "2006-01-02" goes wrong exactly there)
//
//verif:harness C16 quick p=2..2 spare=9..12
//verif:harness C16 thorough p=0..1 spare=9..12
func H_C16_dateLongYear(p int, spare int) {
	prefix := vBytes("prefix", p)
	buf := make([]byte, p, p+spare)
	copy(buf, prefix)
	snap := string(prefix)
	d, _, _, _ := symDate("d", 10000, 99999)
	f := Format(vU8("f") & 1)
	r, err := DefaultFormatter(buf, d, f)
	base, _ := DefaultFormatter(nil, d, f)
	vAssert("no-error", err == nil)
	vAssert("prefix-kept", len(r) >= p && string(r[:p]) == snap)
	vAssert("suffix-is-plain-output", len(r) >= p && string(r[p:]) == string(base))
	vAssert("caller-bytes-untouched", string(buf[:p]) == snap)
	vReach("extended", f == 0)
}

// the caller's buffer is the result of an earlier call (the usual way texts are chained): the earlier bytes stay
// what they were and the new text follows them
//
//verif:harness C16 quick
func H_C16_dateChain() {
	d1, _, _, _ := symDate("d1", 0, 9999)
	d2, _, _, _ := symDate("d2", 0, 9999)
	f1, f2 := Format(vU8("f1")&1), Format(vU8("f2")&1)
	a, _ := DefaultFormatter(nil, d2, f2)
	alone := string(a)
	first, err1 := DefaultFormatter(nil, d1, f1)
	snap := string(first)
	second, err2 := DefaultFormatter(first, d2, f2)
	vAssert("no-error", err1 == nil && err2 == nil)
	vAssert("earlier-text-kept-and-new-text-appended", string(second) == snap+alone)
	vAssert("earlier-result-untouched", string(first) == snap)
	vReach("mixed-formats", f1 != f2)
}
