package date

//verif:harness C16 quick p=0..3 spare=0..1
//verif:harness C16 quick p=2..2 spare=10..10
//verif:harness C16 quick p=2..2 spare=64..64
//verif:harness C16 thorough p=4..8 spare=0..1
//verif:harness C16 thorough p=8..8 spare=7..11
func H_C16_date(p int, spare int) {
	prefix := vBytes("prefix", p)
	buf := make([]byte, p, p+spare)
	copy(buf, prefix)
	snap := string(prefix)
	d, _, _, _ := symDate("d", 0, 9999)
	f := Format(vU8("f") & 1)
	r, err := DefaultFormatter(buf, d, f)
	base, _ := DefaultFormatter(nil, d, f)
	vAssert("no-error", err == nil)
	vAssert("prefix-kept", len(r) >= p && string(r[:p]) == snap)
	vAssert("suffix-is-plain-output", len(r) >= p && string(r[p:]) == string(base))
	vAssert("caller-bytes-untouched", string(buf[:p]) == snap)
	vReach("basic", f == FormatBasic)
}
