package date

type vState struct{ buf []byte }

func (s *vState) Write(b []byte) (int, error) { s.buf = append(s.buf, b...); return len(b), nil }
func (s *vState) Width() (int, bool)          { return 0, false }
func (s *vState) Precision() (int, bool)      { return 0, false }
func (s *vState) Flag(c int) bool             { return false }

// refISO checks text == zero-padded year (yd digits) [-] MM [-] DD by reading the digits back.
func refISO(text []byte, yd int, y, m, d int, basic bool) bool {
	ok, gy, gm, gd := refLayout(text, yd, !basic)
	return ok && gy == y && gm == m && gd == d
}

func refYearDigits(y int) int {
	yd := 4
	p := 10000
	for yd < 9 && y >= p {
		yd++
		p *= 10
	}
	return yd
}

//verif:harness C01 quick
func H_C01_roundtrip() {
	d, y, m, dd := symDate("d", 0, 9999)
	basic := vBool("basic")
	f := Format(0)
	if basic {
		f = FormatBasic
	}
	text, err := DefaultFormatter(nil, d, f)
	vAssert("format-no-error", err == nil)
	vAssert("canonical-text", refISO(text, 4, y, m, dd, basic))
	vReach("basic", basic)
	vReach("leap-day", m == 2 && dd == 29)
	vReach("year-0000", y == 0)
	// every input path
	back, perr := DefaultParser(text, 0)
	vAssert("parse-bytes", perr == nil && back.Equal(d) && back == d)
	sback, serr := DefaultParser(string(text), 0)
	vAssert("parse-string", serr == nil && sback == d)
	u := Date{year: vI32("prev.year"), month: vU8("prev.month"), day: vU8("prev.day")} // whatever the variable held before
	uerr := u.UnmarshalText(text)
	vAssert("unmarshal-text", uerr == nil && u == d)
	// every output path
	if !basic {
		mt, merr := d.MarshalText()
		vAssert("marshal-text", merr == nil && string(mt) == string(text))
		vAssert("string", d.String() == string(text))
		var s1, s2 vState
		d.Format(&s1, 's')
		d.Format(&s2, 'e')
		vAssert("verb-s-e", string(s1.buf) == string(text) && string(s2.buf) == string(text))
	} else {
		var s vState
		d.Format(&s, 'b')
		vAssert("verb-b", string(s.buf) == string(text))
	}
}

// years with 5-9 digits need the limit raised (or disabled)
//
//verif:harness C01 quick yd=5..5
//verif:harness C01 quick yd=9..9
//verif:harness C01 thorough yd=6..8
func H_C01_longYear(yd int) {
	lo := 10000
	for i := 5; i < yd; i++ {
		lo *= 10
	}
	d, y, m, dd := symDate("d", lo, lo*10-1)
	basic := vBool("basic")
	f := Format(0)
	if basic {
		f = FormatBasic
	}
	max := vInt("max")
	vAssume(max == 0 || (max >= 9 && max <= 1000000))
	text, _ := DefaultFormatter(nil, d, f)
	vAssert("canonical-text", refISO(text, yd, y, m, dd, basic))
	save := MaxInputLength
	MaxInputLength = max
	back, perr := DefaultParser(text, 0)
	MaxInputLength = save
	fits := max == 0 || len(text) <= max
	vReach("fits", fits)
	vReach("too-long", !fits)
	vAssert("parse-iff-within-limit", (perr == nil) == fits)
	if perr == nil {
		vAssert("same-date", back == d)
	} else {
		vAssert("too-long-error", errorsIs(perr, ErrInputTooLong))
	}
}
