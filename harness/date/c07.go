package date

import (
	"time"
)

//verif:harness C07 quick
func H_C07_order() {
	a, ay, am, ad := symDate("a", 0, 9999)
	b, by, bm, bd := symDate("b", 0, 9999)
	ka, kb := refKey(ay, am, ad), refKey(by, bm, bd)
	bf, eq, af := a.Before(b), a.Equal(b), a.After(b)
	n := 0
	if bf {
		n++
	}
	if eq {
		n++
	}
	if af {
		n++
	}
	vAssert("exactly-one", n == 1)
	vAssert("before-iff-earlier", bf == (ka < kb))
	vAssert("equal-iff-same", eq == (ka == kb))
	vAssert("after-iff-later", af == (ka > kb))
	vAssert("iszero", a.IsZero() == (ay == 1 && am == 1 && ad == 1))
	vReach("same-year-greater-month-smaller-day", ay == by && am > bm && ad < bd)
}

//verif:harness C07 thorough
func HT_C07_orderWide() {
	a, ay, am, ad := symDate("a", -999999999, 999999999)
	b, by, bm, bd := symDate("b", -999999999, 999999999)
	ka, kb := refKey(ay, am, ad), refKey(by, bm, bd)
	vAssert("before-iff-earlier", a.Before(b) == (ka < kb))
	vAssert("equal-iff-same", a.Equal(b) == (ka == kb))
	vAssert("after-iff-later", a.After(b) == (ka > kb))
	vReach("negative-years", ay < 0 && by < 0)
}

// calendar lemmas tying the harness oracles together: key order = ordinal order, the two ordinal closed forms
// agree, the day after a valid date is ordinal + 1
//
//verif:harness C07 quick
func H_C07_lemmas() {
	_, ay, am, ad := symDate("a", 0, 9999)
	_, by, bm, bd := symDate("b", 0, 9999)
	vAssert("two-closed-forms-agree", refOrdinal(ay, am, ad) == refOrdinalJ(ay, am, ad))
	vAssert("key-order-is-ordinal-order", (refKey(ay, am, ad) < refKey(by, bm, bd)) == (refOrdinalJ(ay, am, ad) < refOrdinalJ(by, bm, bd)))
	// successor
	ny, nm, nd := ay, am, ad+1
	if nd > refDaysIn(ay, am) {
		nd = 1
		nm++
		if nm > 12 {
			nm = 1
			ny++
		}
	}
	vAssert("successor", refOrdinalJ(ny, nm, nd) == refOrdinalJ(ay, am, ad)+1)
	vAssert("epoch", refOrdinalJ(1, 1, 1) == 0 && refOrdinal(1, 1, 1) == 0)
}

//verif:harness C07 quick
func H_C07_timeConversions() {
	a, ay, am, ad := symDate("a", 0, 9999)
	t := a.Time()
	vAssert("time-is-midnight-utc", t.Equal(time.Date(ay, time.Month(am), ad, 0, 0, 0, 0, time.UTC)))
	vAssert("roundtrip", FromTime(t) == a)
	// a non-zero time in a fixed zone shows its own local date
	off := vInt("off")
	h, mi, s := vInt("h"), vInt("mi"), vInt("s")
	vAssume(off >= -12*3600 && off <= 14*3600 && h >= 0 && h < 24 && mi >= 0 && mi < 60 && s >= 0 && s < 60)
	lt := time.Date(ay, time.Month(am), ad, h, mi, s, 0, time.FixedZone("z", off))
	if !lt.IsZero() {
		vAssert("fromtime-takes-local-date", FromTime(lt) == a)
	}
	vReach("near-midnight-negative-offset", h == 23 && off < 0)
	// database/sql
	var d Date
	err := d.Scan(t)
	vAssert("scan-time", err == nil && d == a)
	v, verr := a.Value()
	vt, isTime := v.(time.Time)
	vAssert("value", verr == nil && isTime && vt.Equal(t))
}

//verif:harness C07 quick
func H_C07_sub() {
	a, ay, am, ad := symDate("a", 0, 9999)
	b, by, bm, bd := symDate("b", 0, 9999)
	delta := refOrdinalJ(ay, am, ad) - refOrdinalJ(by, bm, bd)
	vAssume(delta >= -106751 && delta <= 106751)
	vAssert("sub-is-days-times-24h", a.Sub(b) == time.Duration(delta)*24*time.Hour)
	vReach("across-century", ay/100 != by/100)
}

// Add: decided since the engine keeps the civil-date provenance through AddDate, bounds the witness year from
// the ordinal's signed range and lifts the int32 packing of the year (DESIGN.md section 7/C07).
//
//verif:harness C07 quick
func H_C07_add() {
	vNoOutcomeMerge() // FromTime's zero-time return stays a path of its own
	a, ay, am, ad := symDate("a", 0, 9999)
	yy, mm, dd := vInt("yy"), vInt("mm"), vInt("dd")
	vAssume(yy >= -100 && yy <= 100 && mm >= -1200 && mm <= 1200 && dd >= -40000 && dd <= 40000)
	r := a.Add(yy, mm, dd)
	// time.AddDate-style normalisation: months roll into years, then the day offset is added
	const K = 1 << 33
	m0 := uint64((am + mm) - 1 + 12*K) // shifted to stay non-negative
	ny := (ay + yy) + (int(m0/12) - K)
	nm := int(m0%12) + 1
	want := refOrdinalJ(ny, nm, ad+dd)
	ry, rm, rd := r.Date()
	vAssert("lands-on-a-real-date", refValid(ry, int(rm), rd))
	vAssert("lands-on-the-normalised-date", refOrdinalJ(ry, int(rm), rd) == want)
	vReach("overflowing-month", am+mm > 12)
	vReach("negative-days", dd < 0)
}

//verif:harness C07 quick
func H_C07_addDuration() {
	vNoOutcomeMerge()
	a, ay, am, ad := symDate("a", 0, 9999)
	k := vInt("k")
	eps := vI64("eps")
	vAssume(k >= -36500 && k <= 36500 && eps >= 0 && eps < int64(24*time.Hour))
	r := a.AddDuration(time.Duration(k)*24*time.Hour + time.Duration(eps))
	ry, rm, rd := r.Date()
	vAssert("lands-on-a-real-date", refValid(ry, int(rm), rd))
	vAssert("k-days-later", refOrdinalJ(ry, int(rm), rd) == refOrdinalJ(ay, am, ad)+k)
	vReach("backwards", k < 0)
}

// DaysBetween goes through float64 (Hours()/24); the engine cuts the float quotient out as a lemma of its own
// (fpQuotientCut: both the lemma and the operand range are discharged by the solver).
//
//verif:harness C07 quick
func H_C07_daysBetween() {
	a, ay, am, ad := symDate("a", 0, 9999)
	b, by, bm, bd := symDate("b", 0, 9999)
	delta := refOrdinalJ(ay, am, ad) - refOrdinalJ(by, bm, bd)
	vAssume(delta >= -106751 && delta <= 106751) // time.Duration's range
	vAssert("days-between", a.DaysBetween(b) == delta)
	vReach("across-year-zero", ay == 0 && by > 0)
	vReach("negative", delta < 0)
}

// the same against four concrete anchor dates: one side of the difference is then a constant, which keeps the VC
// decidable also for an implementation that computes the day count with a closed form of its own
//
//verif:harness C07 quick anchor=0..3
func H_C07_daysBetweenAnchored(anchor int) {
	anchors := [4][3]int{{1, 1, 1}, {0, 3, 1}, {2000, 2, 29}, {9999, 12, 31}}
	by, bm, bd := anchors[anchor][0], anchors[anchor][1], anchors[anchor][2]
	a, ay, am, ad := symDate("a", 0, 9999)
	b := mkDate(by, bm, bd)
	delta := refOrdinalJ(ay, am, ad) - refOrdinalJ(by, bm, bd)
	vAssume(delta >= -106751 && delta <= 106751)
	vAssert("days-to-anchor", a.DaysBetween(b) == delta)
	vAssert("days-from-anchor", b.DaysBetween(a) == -delta)
	vAssert("sub-to-anchor", a.Sub(b) == time.Duration(delta)*24*time.Hour)
	vReach("before-anchor", delta < 0 || anchor == 1)
	vReach("after-anchor", delta > 0 || anchor == 3)
}

//verif:harness C07 quick
func H_C07_scanOtherTypes() {
	pre := Date{year: vI32("pre.year"), month: vU8("pre.month"), day: vU8("pre.day")}
	d := pre
	var srcs = []interface{}{"2020-01-01", []byte("2020-01-01"), int64(5), nil, 1.5}
	for _, src := range srcs {
		err := d.Scan(src)
		vAssert("scan-rejects-non-time", err != nil && errorsIs(err, ErrInvalidType) && d == pre)
	}
}
