package date

func isDigit(c byte) bool { return c >= '0' && c <= '9' }

// refLayout checks the digit/separator layout for a year of yd digits; extended has '-' at yd and yd+3.
func refLayout(in []byte, yd int, extended bool) (ok bool, y, m, d int) {
	n := len(in)
	want := yd + 4
	if extended {
		want = yd + 6
	}
	if yd < 4 || yd > 9 || n != want {
		return false, 0, 0, 0
	}
	ok = true
	pos := 0
	for i := 0; i < yd; i++ {
		ok = ok && isDigit(in[pos])
		y = y*10 + int(in[pos]-'0')
		pos++
	}
	if extended {
		ok = ok && in[pos] == '-'
		pos++
	}
	for i := 0; i < 2; i++ {
		ok = ok && isDigit(in[pos])
		m = m*10 + int(in[pos]-'0')
		pos++
	}
	if extended {
		ok = ok && in[pos] == '-'
		pos++
	}
	for i := 0; i < 2; i++ {
		ok = ok && isDigit(in[pos])
		d = d*10 + int(in[pos]-'0')
		pos++
	}
	return
}

// refParseDate: the documented language. Returns accept, components and whether the text is the basic form.
func refParseDate(in []byte) (ok bool, y, m, d int, basic bool) {
	n := len(in)
	eok, ey, em, ed := refLayout(in, n-6, true)
	bok, by, bm, bd := refLayout(in, n-4, false)
	if eok && refValid(ey, em, ed) {
		return true, ey, em, ed, false
	}
	if bok && refValid(by, bm, bd) {
		return true, by, bm, bd, true
	}
	return false, 0, 0, 0, false
}

func refSyntaxOnly(in []byte) bool {
	n := len(in)
	eok, _, _, _ := refLayout(in, n-6, true)
	bok, _, _, _ := refLayout(in, n-4, false)
	return eok || bok
}

//verif:harness C09 quick n=0..10
func H_C09_parse(n int) {
	in := vBytes("in", n)
	r := Rule(vU8("rule") & 1)
	d, err := DefaultParser(in, r)
	ok, y, m, dd, basic := refParseDate(in)
	vKnown("C09/day-rollover", refSyntaxOnly(in) && !ok)
	accept := ok && !(basic && r&RuleDisableBasic != 0)
	vReach("accepted", err == nil)
	vReach("rejected", err != nil)
	vAssert("accept-iff-real-date", (err == nil) == accept)
	if err == nil {
		gy, gm, gd := d.Date()
		vAssert("components-as-written", !ok || (gy == y && int(gm) == m && gd == dd))
	} else {
		_, typed := err.(*ParseError[[]byte])
		vAssert("typed-zero", typed && d == Date{})
		if ok && basic && r&RuleDisableBasic != 0 {
			vAssert("basic-disabled-sentinel", errorsIs(err, ErrBasicFormatDisabled))
		}
	}
	sd, serr := DefaultParser(string(in), r)
	vAssert("string-agrees", (serr == nil) == (err == nil) && sd == d)
	// through UnmarshalText (rule 0) a refusal is still the typed error: errors.As / errors.Is see through the wrapper
	u := Date{year: vI32("prev.year"), month: vU8("prev.month"), day: vU8("prev.day")}
	uerr := u.UnmarshalText(in)
	_, perr0 := DefaultParser(in, 0)
	vAssert("unmarshaltext-agrees", (uerr == nil) == (perr0 == nil))
	if uerr != nil {
		typedU := false
		for e := uerr; e != nil; {
			if _, isPE := e.(*ParseError[[]byte]); isPE {
				typedU = true
			}
			w, okW := e.(interface{ Unwrap() error })
			if !okW {
				break
			}
			e = w.Unwrap()
		}
		vAssert("unmarshaltext-error-is-typed", typedU)
	}
}

// longer years need a raised or disabled limit; with the limit in force longer input is ErrInputTooLong
//
//verif:harness C09 thorough n=11..15
func HT_C09_parseLong(n int) {
	in := vBytes("in", n)
	r := Rule(vU8("rule") & 1)
	max := vInt("max")
	vAssume(max >= 0 && max <= 20)
	save := MaxInputLength
	MaxInputLength = max
	d, err := DefaultParser(in, r)
	MaxInputLength = save
	ok, y, m, dd, basic := refParseDate(in)
	vKnown("C09/day-rollover", refSyntaxOnly(in) && !ok)
	tooLong := max != 0 && n > max
	accept := ok && !(basic && r&RuleDisableBasic != 0) && !tooLong
	vReach("accepted", err == nil)
	vReach("too-long", tooLong)
	vAssert("accept-iff-real-date", (err == nil) == accept)
	if tooLong {
		vAssert("too-long-sentinel", err != nil && errorsIs(err, ErrInputTooLong))
	} else if err != nil {
		vAssert("not-too-long", !errorsIs(err, ErrInputTooLong))
	}
	if err == nil {
		gy, gm, gd := d.Date()
		vAssert("components-as-written", !ok || (gy == y && int(gm) == m && gd == dd))
	} else {
		vAssert("zero-on-error", d == Date{})
	}
}

// the number of year digits is part of the grammar (4 to 9), independently of the input-length limit: all-digit
// templates with yd year digits, both layouts, the limit disabled or generous
//
//verif:harness C09 quick yd=3..4
//verif:harness C09 quick yd=9..11
//verif:harness C09 thorough yd=5..8
func H_C09_yearDigits(yd int) {
	extended := vBool("extended")
	var in []byte
	digit := func(name string) byte {
		c := vU8(name)
		vAssume(c >= '0' && c <= '9')
		return c
	}
	y := 0
	for i := 0; i < yd; i++ {
		c := digit("y" + string(rune('a'+i)))
		in = append(in, c)
		y = y*10 + int(c-'0')
	}
	if extended {
		in = append(in, '-')
	}
	m1, m2 := digit("m1"), digit("m2")
	in = append(in, m1, m2)
	if extended {
		in = append(in, '-')
	}
	d1, d2 := digit("d1"), digit("d2")
	in = append(in, d1, d2)
	m, dd := int(m1-'0')*10+int(m2-'0'), int(d1-'0')*10+int(d2-'0')
	max := vInt("max")
	vAssume(max == 0 || (max >= 17 && max <= 1000))
	save := MaxInputLength
	MaxInputLength = max
	d, err := DefaultParser(in, 0)
	sd, serr := DefaultParser(string(in), 0)
	MaxInputLength = save
	accept := yd >= 4 && yd <= 9 && refValid(y, m, dd)
	vReach("accepted", err == nil)
	vReach("rejected", err != nil)
	vAssert("accept-iff-4-to-9-year-digits-and-real-day", (err == nil) == accept)
	vAssert("string-agrees", (serr == nil) == (err == nil) && sd == d)
	if err == nil {
		gy, gm, gd := d.Date()
		vAssert("components-as-written", gy == y && int(gm) == m && gd == dd)
	} else {
		vAssert("zero-on-error", d == Date{})
		vAssert("not-too-long", !errorsIs(err, ErrInputTooLong))
	}
}
