package date

import "time"

func sameChain(a, b error) bool {
	for {
		if a == nil || b == nil {
			return a == nil && b == nil
		}
		if a == b {
			return true
		}
		ua, oka := a.(interface{ Unwrap() error })
		ub, okb := b.(interface{ Unwrap() error })
		if !oka || !okb {
			return false
		}
		a, b = ua.Unwrap(), ub.Unwrap()
	}
}

// errParts: the fields an error message is built from (either instantiation of ParseError)
func errParts(err error) (fn, input string, inner error, ok bool) {
	switch e := err.(type) {
	case *ParseError[[]byte]:
		return e.Func, string(e.Input), e.Err, true
	case *ParseError[string]:
		return e.Func, e.Input, e.Err, true
	}
	return "", "", nil, false
}

//verif:harness C17 quick n=0..11
func H_C17_date(n int) {
	in := vBytes("in", n)
	snap := string(in)
	pre := Date{year: vI32("pre.year"), month: vU8("pre.month"), day: vU8("pre.day")}
	d := pre
	err := d.UnmarshalText(in)
	// UnmarshalText is the parser under rule 0: same verdict, the parsed value is what gets stored (whatever the
	// receiver held before), and a refusal wraps the parser's error (errors.Is / errors.As keep working)
	pv, perr := DefaultParser(in, 0)
	vAssert("unmarshal-agrees-with-parser", (err == nil) == (perr == nil))
	if err == nil {
		vAssert("successful-unmarshal-stores-the-parsed-value", d == pv)
	} else {
		w, wraps := err.(interface{ Unwrap() error })
		vAssert("unmarshal-error-wraps-the-parser-error", wraps && w.Unwrap() != nil)
		for _, sentinel := range []error{ErrInputTooLong, ErrInvalidDate, ErrBasicFormatDisabled} {
			vAssert("same-sentinels-as-the-parser", errorsIs(err, sentinel) == errorsIs(perr, sentinel))
		}
	}
	vReach("ok", err == nil)
	vReach("failed", err != nil)
	if err != nil {
		vAssert("receiver-untouched-on-error", d == pre)
	}
	vAssert("input-not-modified", string(in) == snap)
	r := Rule(vU8("rule") & 1)
	bv, berr := DefaultParser(in, r)
	sv, serr := DefaultParser(string(in), r)
	vAssert("string-bytes-same-value", bv == sv && (berr == nil) == (serr == nil))
	if berr != nil && serr != nil {
		bf, bi, be, bok := errParts(berr)
		sf, si, se, sok := errParts(serr)
		vAssert("string-bytes-same-error", bok && sok && bf == sf && bi == si && sameChain(be, se))
	}
	if berr == nil {
		keep := bv
		for i := range in {
			in[i] = 0xAA
		}
		vAssert("value-independent-of-buffer", bv == keep)
	}
}

//verif:harness C17 quick n=0..9
func H_C17_dateBinary(n int) {
	in := vBytes("in", n)
	snap := string(in)
	pre := Date{year: vI32("pre.year"), month: vU8("pre.month"), day: vU8("pre.day")}
	d := pre
	err := d.UnmarshalBinary(in)
	if err != nil {
		vAssert("receiver-untouched-on-error", d == pre)
	}
	vReach("failed", err != nil)
	vAssert("input-not-modified", string(in) == snap)
}

//verif:harness C17 quick
func H_C17_dateScan() {
	pre := Date{year: vI32("pre.year"), month: vU8("pre.month"), day: vU8("pre.day")}
	d := pre
	for _, src := range []interface{}{"2020-01-01", []byte("2020-01-01"), int64(7), nil, false} {
		err := d.Scan(src)
		vAssert("scan-error-leaves-receiver", err != nil && d == pre)
	}
	_, y, m, dd := symDate("t", 0, 9999)
	err := d.Scan(time.Date(y, time.Month(m), dd, 0, 0, 0, 0, time.UTC))
	vAssert("scan-time-ok", err == nil && d == mkDate(y, m, dd))
}
