package size

func errorsIs(err, target error) bool {
	for err != nil {
		if err == target {
			return true
		}
		u, ok := err.(interface{ Unwrap() error })
		if !ok {
			return false
		}
		err = u.Unwrap()
	}
	return false
}

//verif:harness C18 quick n=0..4
//verif:harness C18 thorough n=5..5
func H_C18_totalSizeText(n int) {
	vMergeOutcomes()
	in := vBytes("in", n)
	r := Rule(vInt("rule"))
	vAssume(r&ruleIsJSON == 0) // JSON rules: see the C12 token-stream and template harnesses
	max := vInt("max")
	vAssume(max >= 0)
	save := MaxInputLength
	MaxInputLength = max
	_, e1 := DefaultParser(in, r)
	_, e2 := DefaultParser(string(in), r)
	var s Size
	e3 := s.UnmarshalText(in)
	MaxInputLength = save
	vReach("some-error", e1 != nil || e2 != nil || e3 != nil)
	vAssert("returns-normally", true)
}

//verif:harness C18 quick n=1..5
//verif:harness C18 quick n=127..129
//verif:harness C18 quick n=1280..1280
func H_C18_limitSize(n int) {
	var in []byte
	if n <= 5 {
		in = vBytes("in", n)
	} else {
		in = make([]byte, n)
		in[0] = '1'
		for i := 1; i < n; i++ {
			in[i] = ' '
		}
	}
	max := vInt("max")
	vAssume(max >= 0 && max <= 1<<31)
	json := vBool("json")
	r := Rule(0)
	if json && n > 5 {
		r = RuleEnableJSONStringForm | RuleEnableJSONObjectForm
	}
	save := MaxInputLength
	MaxInputLength = max
	_, err := DefaultParser(in, r)
	_, serr := DefaultParser(string(in), r)
	MaxInputLength = save
	tooLong := max != 0 && n > max
	vReach("too-long", tooLong)
	vReach("within-limit", !tooLong)
	if tooLong {
		pe, ok := err.(*ParseError[[]byte])
		vAssert("too-long-error", err != nil && errorsIs(err, ErrInputTooLong) && ok && len(pe.Input) == 0)
		se, sok := serr.(*ParseError[string])
		vAssert("too-long-error-string", serr != nil && errorsIs(serr, ErrInputTooLong) && sok && len(se.Input) == 0)
	} else {
		vAssert("never-too-long-within-limit", err == nil || !errorsIs(err, ErrInputTooLong))
		vAssert("never-too-long-within-limit-string", serr == nil || !errorsIs(serr, ErrInputTooLong))
		if n > 5 {
			vAssert("long-valid-text-accepted", err == nil && serr == nil)
		}
	}
}
