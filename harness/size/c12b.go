package size

// byte-level templates: one JSON value (number / string / object), optionally followed by something

func jsonBody(form int, d1, d2 byte) []byte {
	switch form {
	case 0: // number
		return []byte{d1, d2}
	case 1: // string in the text grammar
		return []byte{'"', d1, d2, ' ', 'k', 'B', '"'}
	case 2: // object
		b := []byte(`{"value":`)
		b = append(b, d1, d2)
		return append(b, []byte(`,"UNIT":"KiB"}`)...)
	case 3: // object with a skipped nested member first
		b := []byte(`{"x":{"a":[1,2]},"unit":"B","Value":`)
		b = append(b, d1, d2)
		return append(b, '}')
	}
	return []byte(`[1]`)
}

func jsonTail(tail int) []byte {
	switch tail {
	case 1:
		return []byte(" \n")
	case 2:
		return []byte(" 20")
	case 3:
		return []byte("]")
	case 4:
		return []byte("}")
	case 5:
		return []byte(` "x"`)
	case 6:
		return []byte(",")
	}
	return nil
}

//verif:harness C12 quick form=0..4 tail=0..6
func H_C12_bytes(form int, tail int) {
	vMergeOutcomes()
	d1, d2 := vU8("d1"), vU8("d2")
	vAssume(d1 >= '1' && d1 <= '9' && d2 >= '0' && d2 <= '9')
	val := uint64(d1-'0')*10 + uint64(d2-'0')
	in := append(jsonBody(form, d1, d2), jsonTail(tail)...)
	r := Rule(vU8("rule") & 15)
	vAssume(r&ruleIsJSON != 0)
	got, err := DefaultParser(in, r)
	sgot, serr := DefaultParser(string(in), r)
	formAllowed := true
	want := val
	switch form {
	case 1:
		formAllowed = r&RuleEnableJSONStringForm != 0
		want = val * 1000
	case 2:
		formAllowed = r&RuleEnableJSONObjectForm != 0
		want = val * 1024
	case 3:
		formAllowed = r&RuleEnableJSONObjectForm != 0 && r&RuleDisallowUnknownKeys == 0
	case 4:
		formAllowed = false
	}
	single := tail <= 1 // only white space may follow the value
	vKnown("C12/not-exactly-one-value", !single)
	vReach("accepted", err == nil)
	vReach("rejected", err != nil)
	vAssert("accept-iff-single-allowed-value", (err == nil) == (formAllowed && single))
	vAssert("value", err != nil || uint64(got) == want)
	vAssert("string-agrees", (serr == nil) == (err == nil) && sgot == got)
	if err != nil && single {
		switch {
		case form == 1:
			vAssert("string-form-disabled", errorsIs(err, ErrStringFormDisabled))
		case form == 2:
			vAssert("object-form-disabled", errorsIs(err, ErrObjectFormDisabled))
		case form == 3 && r&RuleEnableJSONObjectForm == 0:
			vAssert("object-form-disabled", errorsIs(err, ErrObjectFormDisabled))
		case form == 3:
			vAssert("unexpected-key", errorsIs(err, ErrUnexpectedKey))
		case form == 4:
			vAssert("expected-object", errorsIs(err, ErrExpectedObject))
		}
	}
}

// truncated documents are never accepted
//
//verif:harness C12 quick form=1..3 cut=1..40
func H_C12_cut(form int, cut int) {
	vMergeOutcomes()
	full := jsonBody(form, '4', '2')
	if cut >= len(full) {
		return
	}
	in := full[:cut]
	r := Rule(vU8("rule") & 15)
	vAssume(r&ruleIsJSON != 0)
	_, err := DefaultParser(in, r)
	vKnown("C12/not-exactly-one-value", true)
	vReach("rejected", err != nil)
	vAssert("truncated-input-rejected", err != nil)
}
