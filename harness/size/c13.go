package size

//verif:harness C13 quick
func H_C13_shorten() {
	s := Size(vU64("s"))
	v, u := s.Shorten()
	// independent unit table: exponent of 1024
	exp := -1
	switch u {
	case "B":
		exp = 0
	case "KiB":
		exp = 1
	case "MiB":
		exp = 2
	case "GiB":
		exp = 3
	case "TiB":
		exp = 4
	case "PiB":
		exp = 5
	case "EiB":
		exp = 6
	}
	vAssert("binary-unit", exp >= 0)
	if exp >= 0 {
		sh := uint(10 * exp)
		vAssert("exact-product", v<<sh == uint64(s) && (v<<sh)>>sh == v)
		if s == 0 {
			vAssert("zero-is-0B", v == 0 && exp == 0)
		} else {
			vAssert("maximal", exp == 6 || v&1023 != 0)
		}
		vReach("EiB", exp == 6 && v > 1)
		vReach("KiB", exp == 1)
	}
}

// refDigits: number of decimal digits of v.
func refDigits(v uint64) int {
	nd := 1
	p := uint64(10)
	for nd < 20 && v >= p {
		nd++
		if nd < 20 {
			p *= 10
		}
	}
	return nd
}

func hasPrefixAt(b []byte, at int, s string) bool {
	if at < 0 || at+len(s) > len(b) {
		return false
	}
	for i := 0; i < len(s); i++ {
		if b[at+i] != s[i] {
			return false
		}
	}
	return true
}

// refRendering checks out == group3(digits(v)) sep unit, reading the digits back by Horner's rule.
func refRendering(out []byte, v uint64, unit string, sep string) bool {
	nd := refDigits(v)
	groups := (nd + 2) / 3
	want := nd + groups*len(sep) + len(unit)
	if len(out) != want {
		return false
	}
	ok := true
	pos := 0
	acc := uint64(0)
	for i := 0; i < nd; i++ {
		c := out[pos]
		ok = ok && c >= '0' && c <= '9'
		if i == 0 && nd > 1 {
			ok = ok && c != '0'
		}
		acc = acc*10 + uint64(c-'0')
		pos++
		if (nd-1-i)%3 == 0 {
			ok = ok && hasPrefixAt(out, pos, sep)
			pos += len(sep)
		}
	}
	ok = ok && acc == v
	ok = ok && hasPrefixAt(out, pos, unit)
	return ok
}

//verif:harness C13 quick
func H_C13_render() {
	s := Size(vU64("s"))
	f := Format(vU8("f") & 3)
	v, u := s.Shorten()
	out, err := DefaultFormatter(nil, s, f)
	vAssert("no-error", err == nil)
	sep := ""
	if f&FormatPretty != 0 {
		sep = " "
		if f&FormatHTML != 0 {
			sep = "&nbsp;"
		}
	}
	vAssert("rendering", refRendering(out, v, u, sep))
	vReach("pretty-7-digits", f == FormatPretty && v >= 1000000 && v < 10000000)
	vReach("html", f == FormatPretty|FormatHTML)
	vReach("20-digits", v >= 10000000000000000000)
	if f == 0 {
		vAssert("String", s.String() == string(out))
	}
	if f == FormatPretty {
		vAssert("PrettyString", s.PrettyString() == string(out))
	}
	if f == FormatPretty|FormatHTML {
		vAssert("PrettyHTML", string(s.PrettyHTML()) == string(out))
	}
}

// the same renderings into a caller's buffer with spare capacity (room for part of the text, or for all of it):
// a formatter that builds its digits in the spare room must still produce the exact grouped text
//
//verif:harness C13 quick p=1..1 spare=8..8
//verif:harness C13 quick p=0..0 spare=128..128
//verif:harness C13 thorough p=0..0 spare=8..8
//verif:harness C13 thorough p=1..1 spare=128..128
func H_C13_renderIntoBuffer(p int, spare int) {
	s := Size(vU64("s"))
	f := Format(vU8("f") & 3)
	v, u := s.Shorten()
	prefix := vBytes("prefix", p)
	buf := make([]byte, p, p+spare)
	copy(buf, prefix)
	out, err := DefaultFormatter(buf, s, f)
	vAssert("no-error", err == nil)
	sep := ""
	if f&FormatPretty != 0 {
		sep = " "
		if f&FormatHTML != 0 {
			sep = "&nbsp;"
		}
	}
	vAssert("prefix-kept", len(out) >= p && string(out[:p]) == string(prefix))
	if len(out) >= p {
		vAssert("rendering", refRendering(out[p:], v, u, sep))
	}
	vReach("pretty-4-digits", f == FormatPretty && v >= 1000 && v < 10000)
	vReach("html", f == FormatPretty|FormatHTML)
}
