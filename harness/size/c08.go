package size

import (
	"math"

	"go.lstv.dev/util/constraint"
)

type refUnit struct {
	name     string
	mult     uint64
	zeroOnly bool
}

// the documented units, written out independently of size/units.go
var refUnits = []refUnit{
	{"", 1, false}, {"B", 1, false},
	{"kB", 1000, false}, {"MB", 1000000, false}, {"GB", 1000000000, false}, {"TB", 1000000000000, false},
	{"PB", 1000000000000000, false}, {"EB", 1000000000000000000, false}, {"ZB", 0, true}, {"YB", 0, true},
	{"KiB", 1 << 10, false}, {"MiB", 1 << 20, false}, {"GiB", 1 << 30, false}, {"TiB", 1 << 40, false},
	{"PiB", 1 << 50, false}, {"EiB", 1 << 60, false}, {"ZiB", 0, true}, {"YiB", 0, true},
}

func refLookup(unit string) (known bool, mult uint64, zeroOnly bool) {
	for _, u := range refUnits {
		if u.name == unit {
			known, mult, zeroOnly = true, u.mult, u.zeroOnly
		}
	}
	return
}

// refProduct: the exact size for an integral non-negative value, or refusal.
func refProduct(uv uint64, unit string) (ok bool, s uint64) {
	known, mult, zeroOnly := refLookup(unit)
	if !known {
		return false, 0
	}
	if uv == 0 {
		return true, 0
	}
	if zeroOnly {
		return false, 0
	}
	if uv > math.MaxUint64/mult {
		return false, 0
	}
	return true, uv * mult
}

func pickUnit(u int) string {
	if u < len(refUnits) {
		return refUnits[u].name
	}
	switch u - len(refUnits) {
	case 0:
		return "XB"
	case 1:
		return "kb"
	case 2:
		return "KB"
	}
	return "b"
}

func c08Int[N constraint.Ints | constraint.Uints](value N, unit string) {
	s, err := New(value, unit)
	ok, want := false, uint64(0)
	if value >= 0 {
		ok, want = refProduct(uint64(value), unit)
	}
	vReach("accepted", err == nil)
	vReach("refused", err != nil)
	vAssert("exact-or-refused", (err == nil) == ok && (err != nil || uint64(s) == want) && (err == nil || s == 0))
}

func c08Float[N constraint.Floats](value N, unit string) {
	s, err := New(value, unit)
	f := float64(value)
	integral := f >= 0 && f < 18446744073709551616.0 && math.Trunc(f) == f
	ok, want := false, uint64(0)
	if integral {
		ok, want = refProduct(uint64(f), unit)
	}
	vReach("accepted", err == nil)
	vReach("refused-nan", f != f)
	vReach("refused-fraction", f > 0 && math.Trunc(f) != f)
	vAssert("exact-or-refused", (err == nil) == ok && (err != nil || uint64(s) == want) && (err == nil || s == 0))
}

//verif:harness C08 quick kind=0..11 u=0..21
func H_C08_new(kind int, u int) {
	unit := pickUnit(u)
	switch kind {
	case 0:
		c08Int(vInt("v"), unit)
	case 1:
		c08Int(vI8("v"), unit)
	case 2:
		c08Int(vI16("v"), unit)
	case 3:
		c08Int(vI32("v"), unit)
	case 4:
		c08Int(vI64("v"), unit)
	case 5:
		c08Int(vUint("v"), unit)
	case 6:
		c08Int(vU8("v"), unit)
	case 7:
		c08Int(vU16("v"), unit)
	case 8:
		c08Int(vU32("v"), unit)
	case 9:
		c08Int(vU64("v"), unit)
	case 10:
		c08Float(vF32("v"), unit)
	case 11:
		c08Float(vF64("v"), unit)
	}
}

// arbitrary unit strings of length 0..3: only the documented names are units
//
//verif:harness C08 quick l=0..3
func H_C08_unitNames(l int) {
	unit := vStr("unit", l)
	v := vU64("v")
	s, err := New(v, unit)
	ok, want := refProduct(v, unit)
	vReach("accepted", err == nil)
	vReach("refused", err != nil)
	vAssert("exact-or-refused", (err == nil) == ok && (err != nil || uint64(s) == want) && (err == nil || s == 0))
}

type myInt16 int16
type myFloat float64

//verif:harness C08 quick
func H_C08_derivedTypes() {
	c08Int(myInt16(vI16("v")), "MiB")
	c08Float(myFloat(vF64("f")), "kB")
	vAssert("constraint-max-min", constraint.Max[myInt16]() == 32767 && constraint.Min[myInt16]() == -32768 && constraint.SizeBits[myInt16]() == 16 && constraint.SizeBits[myFloat]() == 64)
	vAssert("constraint-unsigned", constraint.Max[uint8]() == 255 && constraint.Min[uint8]() == 0 && constraint.Max[uint64]() == math.MaxUint64 && constraint.Min[int64]() == math.MinInt64)
}

// ---- text ----

// refNumberPart: in[0:i] is spaces / digits / separators (separators only after the first digit) with >= 1 digit.
// NBSP is the two bytes C2 A0. Returns ok, value, overflow.
func refNumberPart(in []byte, i int) (ok bool, val uint64, ovf bool) {
	ok = true
	nd := 0
	for p := 0; p < i; p++ {
		c := in[p]
		switch {
		case c >= '0' && c <= '9':
			d := uint64(c - '0')
			if val > 1844674407370955161 || (val == 1844674407370955161 && d > 5) {
				ovf = true
			}
			val = val*10 + d
			if nd < 100 {
				nd++
			}
		case c == ' ':
		case c == '_' && nd > 0:
		case c == 0xC2 && nd > 0 && p+1 < i && in[p+1] == 0xA0:
			p++
		default:
			ok = false
		}
	}
	ok = ok && nd > 0
	return
}

func isUnitAt(in []byte, i, j int, name string) bool {
	if j-i != len(name) {
		return false
	}
	for k := 0; k < len(name); k++ {
		if in[i+k] != name[k] {
			return false
		}
	}
	return true
}

// refText: the documented text grammar: [spaces] digits-with-separators [separators] [unit] [spaces].
func refText(in []byte) (ok bool, s uint64) {
	n := len(in)
	for i := 0; i <= n; i++ {
		nok, val, ovf := refNumberPart(in, i)
		for j := i; j <= n && j-i <= 3; j++ {
			trail := true
			for p := j; p < n; p++ {
				trail = trail && in[p] == ' '
			}
			for _, u := range refUnits {
				if (j > i) != (u.name != "") {
					continue
				}
				if nok && trail && !ovf && isUnitAt(in, i, j, u.name) && !ok {
					pok, pv := refProduct(val, u.name)
					if pok {
						ok, s = true, pv
					}
				}
			}
		}
	}
	return
}

//verif:harness C08 quick n=0..5
//verif:harness C08 thorough n=6..6
func H_C08_text(n int) {
	in := vBytes("in", n)
	s, err := DefaultParser(in, 0)
	ok, want := refText(in)
	// trailing run of two or more spaces after a unit
	vKnown("C08/two-trailing-spaces-after-unit", n >= 3 && in[n-1] == ' ' && in[n-2] == ' ')
	vReach("accepted", err == nil)
	vReach("rejected", err != nil)
	vAssert("accept-iff-grammar", (err == nil) == ok)
	vAssert("value", err != nil || uint64(s) == want)
	vAssert("zero-on-error", err == nil || s == 0)
	ss, serr := DefaultParser(string(in), 0)
	vAssert("string-agrees", (serr == nil) == (err == nil) && ss == s)
}

// templates: up to 20 symbolic digits, every unit, separators at symbolic places
//
//verif:harness C08 quick k=1..3 u=0..17
//verif:harness C08 quick k=20..20 u=1..1
//verif:harness C08 quick k=18..18 u=7..7
//verif:harness C08 thorough k=4..6 u=0..17
//verif:harness C08 thorough k=10..10 u=0..17
//verif:harness C08 thorough k=19..21 u=7..8
//verif:harness C08 thorough k=19..21 u=15..16
func H_C08_template(k int, u int) {
	digits := vBytes("digits", k)
	for i := 0; i < k; i++ {
		vAssume(digits[i] >= '0' && digits[i] <= '9')
	}
	sepAt := vInt("sepAt")   // a separator is inserted after digit sepAt (0-based) when in range
	sepKind := vU8("sepKind") // 0 none, 1 space, 2 underscore, 3 NBSP
	unitSep := vU8("unitSep") // before the unit: 0 none, 1 space, 2 underscore, 3 NBSP
	lead := vBool("lead")
	trail := vBool("trail")
	vAssume((sepAt == 0 || sepAt == k/2) && sepKind <= 3 && unitSep <= 3)
	if k > 6 {
		// long numbers: one separator kind per place keeps the state count small
		vAssume(sepKind == unitSep && lead == trail)
	}
	sep := func(kind uint8) []byte {
		switch kind {
		case 1:
			return []byte{' '}
		case 2:
			return []byte{'_'}
		case 3:
			return []byte{0xC2, 0xA0}
		}
		return nil
	}
	var in []byte
	if lead {
		in = append(in, ' ')
	}
	for i := 0; i < k; i++ {
		in = append(in, digits[i])
		if i == sepAt && i < k-1 {
			in = append(in, sep(sepKind)...)
		}
	}
	unit := refUnits[u].name
	if unit != "" {
		in = append(in, sep(unitSep)...)
	}
	in = append(in, unit...)
	if trail {
		in = append(in, ' ')
	}
	s, err := DefaultParser(in, 0)
	// expected value from the digits alone
	val, ovf := uint64(0), false
	for i := 0; i < k; i++ {
		d := uint64(digits[i] - '0')
		if val > 1844674407370955161 || (val == 1844674407370955161 && d > 5) {
			ovf = true
		}
		val = val*10 + d
	}
	ok, want := false, uint64(0)
	if !ovf {
		ok, want = refProduct(val, unit)
	}
	vReach("accepted", err == nil)
	vReach("refused", err != nil)
	vAssert("separators-never-change-the-value", (err == nil) == ok && (err != nil || uint64(s) == want))
}

// ---- Bytes[N] ----

func c08BytesInt[N constraint.Ints | constraint.Uints](s Size, max uint64) {
	v, ok := Bytes[N](s)
	fits := uint64(s) <= max
	vReach("fits", ok)
	vReach("does-not-fit", !ok)
	vAssert("ok-iff-representable", ok == fits)
	vAssert("value", !ok || (v >= 0 && uint64(v) == uint64(s)))
	vAssert("zero-when-not-ok", ok || v == 0)
}

// exact(s, p): s has at most p significant bits
func exactBits(s uint64, p uint) bool {
	ex := true
	for l := p + 1; l <= 64; l++ {
		if s>>(l-1) == 1 { // bit length is l
			ex = s&(uint64(1)<<(l-p)-1) == 0
		}
	}
	return ex
}

func c08BytesFloat[N constraint.Floats](s Size, p uint) {
	v, ok := Bytes[N](s)
	fits := exactBits(uint64(s), p)
	vReach("fits", ok)
	vReach("does-not-fit", !ok)
	vAssert("ok-iff-exactly-representable", ok == fits)
	f := float64(v)
	vAssert("value", !ok || (f >= 0 && f < 18446744073709551616.0 && uint64(f) == uint64(s)))
	vAssert("zero-when-not-ok", ok || v == 0)
}

//verif:harness C08 quick kind=0..11
func H_C08_bytes(kind int) {
	s := Size(vU64("s"))
	switch kind {
	case 0:
		c08BytesInt[int](s, math.MaxInt64)
	case 1:
		c08BytesInt[int8](s, math.MaxInt8)
	case 2:
		c08BytesInt[int16](s, math.MaxInt16)
	case 3:
		c08BytesInt[int32](s, math.MaxInt32)
	case 4:
		c08BytesInt[int64](s, math.MaxInt64)
	case 5:
		c08BytesInt[uint](s, math.MaxUint64)
	case 6:
		c08BytesInt[uint8](s, math.MaxUint8)
	case 7:
		c08BytesInt[uint16](s, math.MaxUint16)
	case 8:
		c08BytesInt[uint32](s, math.MaxUint32)
	case 9:
		c08BytesInt[uint64](s, math.MaxUint64)
	case 10:
		c08BytesFloat[float32](s, 24)
	case 11:
		c08BytesFloat[float64](s, 53)
	}
}
