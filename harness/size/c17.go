package size

//verif:harness C17 quick n=0..4
//verif:harness C17 thorough n=5..5
func H_C17_sizeText(n int) {
	vMergeOutcomes()
	in := vBytes("in", n)
	snap := string(in)
	pre := Size(vU64("pre"))
	v := pre
	err := v.UnmarshalText(in)
	vReach("ok", err == nil)
	vReach("failed", err != nil)
	if err != nil {
		vAssert("receiver-untouched-on-error", v == pre)
	}
	vAssert("input-not-modified", string(in) == snap)
	r := Rule(vU8("rule") & 1)
	bv, berr := DefaultParser(in, r)
	sv, serr := DefaultParser(string(in), r)
	vAssert("string-bytes-same-value", bv == sv && (berr == nil) == (serr == nil))
}
