package size

//verif:harness C17 quick n=0..4
//verif:harness C17 thorough n=5..5
func H_C17_sizeText(n int) {
	vMergeOutcomes()
	in := vBytes("in", n)
	snap := string(in)
	pre := Size(vU64("pre"))
	v := pre
	err := v.UnmarshalText(in)
	vReach("ok", err == nil)
	vReach("failed", err != nil)
	if err != nil {
		vAssert("receiver-untouched-on-error", v == pre)
	}
	vAssert("input-not-modified", string(in) == snap)
	r := Rule(vU8("rule") & 1)
	bv, berr := DefaultParser(in, r)
	sv, serr := DefaultParser(string(in), r)
	vAssert("string-bytes-same-value", bv == sv && (berr == nil) == (serr == nil))
}

// UnmarshalText is the parser under the text part of DefaultRule: same verdict, the parsed value is stored whatever
// the receiver held, a refusal wraps the parser's error (a harness of its own: the size parser is the heaviest)
//
//verif:harness C17 quick n=0..3
//verif:harness C17 thorough n=4..4
func H_C17_sizeUnmarshal(n int) {
	vMergeOutcomes()
	in := vBytes("in", n)
	v := Size(vU64("pre"))
	err := v.UnmarshalText(in)
	pv, perr := DefaultParser(in, DefaultRule&ruleUnmarshalTextMask)
	vAssert("unmarshal-agrees-with-parser", (err == nil) == (perr == nil))
	if err == nil {
		vAssert("successful-unmarshal-stores-the-parsed-value", v == pv)
	} else {
		w, wraps := err.(interface{ Unwrap() error })
		vAssert("unmarshal-error-wraps-the-parser-error", wraps && w.Unwrap() != nil)
		vAssert("same-sentinels-as-the-parser", errorsIs(err, ErrInputTooLong) == errorsIs(perr, ErrInputTooLong) && errorsIs(err, ErrUnitDisabled) == errorsIs(perr, ErrUnitDisabled))
	}
	vReach("ok", err == nil)
	vReach("failed", err != nil)
}
