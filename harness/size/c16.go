package size

//verif:harness C16 quick p=0..3 spare=0..1
//verif:harness C16 quick p=2..2 spare=6..6
//verif:harness C16 quick p=2..2 spare=64..64
//verif:harness C16 thorough p=4..8 spare=0..1
func H_C16_size(p int, spare int) {
	prefix := vBytes("prefix", p)
	buf := make([]byte, p, p+spare)
	copy(buf, prefix)
	snap := string(prefix)
	s := Size(vU64("s"))
	vAssume(s < 1<<34)
	f := Format(vU8("f") & 3)
	r, err := DefaultFormatter(buf, s, f)
	base, _ := DefaultFormatter(nil, s, f)
	vAssert("no-error", err == nil)
	vAssert("prefix-kept", len(r) >= p && string(r[:p]) == snap)
	vAssert("suffix-is-plain-output", len(r) >= p && string(r[p:]) == string(base))
	vAssert("caller-bytes-untouched", string(buf[:p]) == snap)
	vReach("pretty", f == FormatPretty)
}
