package size

//verif:harness C16 quick p=0..3 spare=0..1
//verif:harness C16 quick p=2..2 spare=6..6
//verif:harness C16 quick p=2..2 spare=64..64
//verif:harness C16 thorough p=4..8 spare=0..1
func H_C16_size(p int, spare int) {
	prefix := vBytes("prefix", p)
	buf := make([]byte, p, p+spare)
	copy(buf, prefix)
	snap := string(prefix)
	s := Size(vU64("s"))
	vAssume(s < 1<<34)
	f := Format(vU8("f") & 3)
	r, err := DefaultFormatter(buf, s, f)
	base, _ := DefaultFormatter(nil, s, f)
	vAssert("no-error", err == nil)
	vAssert("prefix-kept", len(r) >= p && string(r[:p]) == snap)
	vAssert("suffix-is-plain-output", len(r) >= p && string(r[p:]) == string(base))
	vAssert("caller-bytes-untouched", string(buf[:p]) == snap)
	vReach("pretty", f == FormatPretty)
}

// the caller's buffer is the result of an earlier call: the earlier text stays what it was and the new text follows
//
//verif:harness C16 thorough
func H_C16_sizeChain() {
	s1, s2 := Size(vU64("s1")), Size(vU64("s2"))
	vAssume(s1 < 1<<34 && s2 < 1<<34)
	f1, f2 := Format(vU8("f1")&3), Format(vU8("f2")&3)
	a, _ := DefaultFormatter(nil, s2, f2)
	alone := string(a)
	first, err1 := DefaultFormatter(nil, s1, f1)
	snap := string(first)
	second, err2 := DefaultFormatter(first, s2, f2)
	vAssert("no-error", err1 == nil && err2 == nil)
	vAssert("earlier-text-kept-and-new-text-appended", string(second) == snap+alone)
	vAssert("earlier-result-untouched", string(first) == snap)
}
