package size

//verif:harness C04 quick path=0..4
func H_C04_roundtrip(path int) {
	vNoOutcomeMerge() // the JSON model needs every byte's role (digit, letter, quote) to be decidable
	s := Size(vU64("s"))
	s1, s2, s3 := DisableMarshalTextUnit, DisableMarshalJSONStringForm, DisableMarshalJSONObjectForm
	DisableMarshalTextUnit = vBool("noTextUnit")
	DisableMarshalJSONStringForm = vBool("noJSONString")
	DisableMarshalJSONObjectForm = vBool("noJSONObject")
	var back Size
	var merr, uerr error
	switch path {
	case 0:
		var b []byte
		b, merr = s.MarshalText()
		uerr = back.UnmarshalText(b)
	case 1:
		var b []byte
		b, merr = s.MarshalJSON()
		uerr = back.UnmarshalJSON(b)
		vReach("object-form", !DisableMarshalJSONObjectForm)
		vReach("string-form", DisableMarshalJSONObjectForm && !DisableMarshalJSONStringForm)
		vReach("number-form", DisableMarshalJSONObjectForm && DisableMarshalJSONStringForm)
	case 2:
		back, uerr = DefaultParser(s.String(), 0)
	case 3:
		back, uerr = DefaultParser(s.PrettyString(), 0)
	case 4:
		back, uerr = DefaultParser([]byte(s.BytesString()), 0)
	}
	DisableMarshalTextUnit, DisableMarshalJSONStringForm, DisableMarshalJSONObjectForm = s1, s2, s3
	vAssert("marshal-no-error", merr == nil)
	vAssert("unmarshal-no-error", uerr == nil)
	vAssert("same-size", uerr != nil || back == s)
	vReach("large", s > 1<<62)
}
