package size

import (
	"encoding/json"
	"io"
)

// vDecoder is a scripted token stream behaving like json.Decoder positioned just after an object's '{':
// More() is false at a closing delimiter or at the end of input; Token() past the end returns io.EOF.
type vDecoder struct {
	toks []json.Token
	pos  int
}

func (d *vDecoder) More() bool {
	if d.pos >= len(d.toks) {
		return false
	}
	if dl, ok := d.toks[d.pos].(json.Delim); ok && (dl == '}' || dl == ']') {
		return false
	}
	return true
}

func (d *vDecoder) Token() (json.Token, error) {
	if d.pos >= len(d.toks) {
		return nil, io.EOF
	}
	t := d.toks[d.pos]
	d.pos++
	return t, nil
}

type memberRef struct {
	isValue, isUnit bool
	typed           bool // carries the right JSON type for its key
}

// member kinds: 0 "value":number 1 "VALUE":number 2 "unit":string 3 "Unit":string 4 "other":number
// 5 "other":{"a":[1,{}]} 6 "value":string (wrong type) 7 "unit":number (wrong type)
func addMember(toks []json.Token, kind int, idx int, num json.Number, unit string) ([]json.Token, memberRef) {
	switch kind {
	case 0:
		return append(toks, "value", num), memberRef{isValue: true, typed: true}
	case 1:
		return append(toks, "VALUE", num), memberRef{isValue: true, typed: true}
	case 2:
		return append(toks, "unit", unit), memberRef{isUnit: true, typed: true}
	case 3:
		return append(toks, "Unit", unit), memberRef{isUnit: true, typed: true}
	case 4:
		return append(toks, "other", json.Number("7")), memberRef{}
	case 5:
		return append(toks, "other", json.Delim('{'), "a", json.Delim('['), json.Number("1"), json.Delim('{'), json.Delim('}'), json.Delim(']'), json.Delim('}')), memberRef{}
	case 6:
		return append(toks, "value", "12"), memberRef{isValue: true}
	}
	return append(toks, "unit", json.Number("3")), memberRef{isUnit: true}
}

//verif:harness C12 quick k=0..0 shape=0..0
//verif:harness C12 quick k=1..1 shape=0..7
//verif:harness C12 quick k=2..2 shape=0..63
//verif:harness C12 thorough k=3..3 shape=0..511
func H_C12_object(k int, shape int) {
	vMergeOutcomes()
	r := Rule(vU8("rule") & 15)
	max := vInt("max")
	vAssume(max >= 0 && max <= 5)
	d1, d2 := vU8("d1"), vU8("d2")
	vAssume(d1 >= '0' && d1 <= '9' && d2 >= '0' && d2 <= '9' && d1 != '0')
	num := json.Number(string([]byte{d1, d2}))
	val := uint64(d1-'0')*10 + uint64(d2-'0')
	if vBool("one-digit") {
		// a single digit, zero included: zero times an unknown unit is still an unknown unit
		num = json.Number(string([]byte{d2}))
		val = uint64(d2 - '0')
		vReach("zero-value", val == 0)
	}
	unit := vStr("unit", 2)
	var toks []json.Token
	var refs []memberRef
	s := shape
	for i := 0; i < k; i++ {
		var m memberRef
		toks, m = addMember(toks, s%8, i, num, unit)
		refs = append(refs, m)
		s /= 8
	}
	toks = append(toks, json.Delim('}'))
	d := &vDecoder{toks: toks}
	save := MaxObjectKeys
	MaxObjectKeys = max
	got, err := unmarshalJSONObject(d, r)
	MaxObjectKeys = save
	// order-independent expectation from the member multiset
	nValue, nUnit, nOther, badType := 0, 0, 0, false
	for _, m := range refs {
		switch {
		case m.isValue:
			nValue++
			badType = badType || !m.typed
		case m.isUnit:
			nUnit++
			badType = badType || !m.typed
		default:
			nOther++
		}
	}
	tooMany := max != 0 && k > max
	unknownRejected := nOther > 0 && r&RuleDisallowUnknownKeys != 0
	pok, want := refProduct(val, unit)
	accept := nValue == 1 && nUnit == 1 && !badType && !tooMany && !unknownRejected && pok
	vKnown("C12/max-object-keys", max == 0 || k > max)
	vReach("accepted", err == nil)
	vReach("rejected", err != nil)
	vAssert("accept-iff-one-value-one-unit-within-limits", (err == nil) == accept)
	vAssert("value", err != nil || uint64(got) == want)
	vAssert("zero-on-error", err == nil || got == 0)
	if err != nil {
		// when exactly one rejection class applies the documented sentinel is returned
		classes := 0
		for _, c := range []bool{nValue == 0, nUnit == 0, nValue > 1, nUnit > 1, badType, tooMany, unknownRejected} {
			if c {
				classes++
			}
		}
		if classes == 1 {
			switch {
			case nValue == 0:
				vAssert("missing-value", errorsIs(err, ErrMissingValueKey))
			case nUnit == 0:
				vAssert("missing-unit", errorsIs(err, ErrMissingUnitKey))
			case nValue > 1:
				vAssert("duplicated-value", errorsIs(err, ErrDuplicatedValueKey))
			case nUnit > 1:
				vAssert("duplicated-unit", errorsIs(err, ErrDuplicatedUnitKey))
			case badType:
				vAssert("invalid-type", errorsIs(err, ErrInvalidType))
			case tooMany:
				vAssert("too-big", errorsIs(err, ErrObjectTooBig))
			case unknownRejected:
				vAssert("unexpected-key", errorsIs(err, ErrUnexpectedKey))
			}
		}
	}
}

// the stream ends early (truncated document): never accepted
//
//verif:harness C12 quick shape=0..63 cut=0..4
func H_C12_truncated(shape int, cut int) {
	vMergeOutcomes()
	r := Rule(vU8("rule") & 15)
	num := json.Number("10")
	var toks []json.Token
	s := shape
	for i := 0; i < 2; i++ {
		toks, _ = addMember(toks, s%8, i, num, "kB")
		s /= 8
	}
	if cut >= len(toks) {
		return
	}
	d := &vDecoder{toks: toks[:cut]}
	_, err := unmarshalJSONObject(d, r)
	_ = err
	// the object reader itself cannot see the missing '}' when the cut falls between members; the byte-level
	// harness covers that. What it must not do is panic or loop: returning is the assertion here.
	vAssert("returns", true)
	vReach("error", err != nil)
}

// duplicates that differ only in letter case ("value"/"VALUE", "unit"/"Unit") next to the other member, in every
// order: rejected with the duplicate sentinel, whatever the rules say about unknown keys (three members: the quick
// tier of H_C12_object stops at two, where a duplicate always also lacks the other member)
//
//verif:harness C12 quick which=0..1 perm=0..5
func H_C12_caseDuplicates(which int, perm int) {
	vMergeOutcomes()
	r := Rule(vU8("rule") & 15)
	d1, d2 := vU8("d1"), vU8("d2")
	vAssume(d1 >= '1' && d1 <= '9' && d2 >= '0' && d2 <= '9')
	num := json.Number(string([]byte{d1, d2}))
	kinds := [3]int{0, 1, 2} // value, VALUE, unit
	if which == 1 {
		kinds = [3]int{0, 2, 3} // value, unit, Unit
	}
	perms := [6][3]int{{0, 1, 2}, {0, 2, 1}, {1, 0, 2}, {1, 2, 0}, {2, 0, 1}, {2, 1, 0}}
	var toks []json.Token
	for i := 0; i < 3; i++ {
		toks, _ = addMember(toks, kinds[perms[perm][i]], i, num, "kB")
	}
	toks = append(toks, json.Delim('}'))
	save := MaxObjectKeys
	MaxObjectKeys = 0
	got, err := unmarshalJSONObject(&vDecoder{toks: toks}, r)
	MaxObjectKeys = save
	vAssert("case-insensitive-duplicate-rejected", err != nil && got == 0)
	if which == 0 {
		vAssert("duplicated-value-sentinel", errorsIs(err, ErrDuplicatedValueKey))
	} else {
		vAssert("duplicated-unit-sentinel", errorsIs(err, ErrDuplicatedUnitKey))
	}
	vReach("reached", true)
}
