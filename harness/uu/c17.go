package uu

//verif:harness C17 quick n=30..46
func H_C17_uu(n int) {
	in := vBytes("in", n)
	snap := string(in)
	pre := ID{Higher: vU64("pre.hi"), Lower: vU64("pre.lo")}
	id := pre
	err := id.UnmarshalText(in)
	// UnmarshalText is the parser under rule 0: same verdict, the parsed value is what gets stored (whatever the
	// receiver held before), and a refusal wraps the parser's error (errors.Is / errors.As keep working)
	pv, perr := DefaultParser(in, 0)
	vAssert("unmarshal-agrees-with-parser", (err == nil) == (perr == nil))
	if err == nil {
		vAssert("successful-unmarshal-stores-the-parsed-value", id == pv)
	} else {
		w, wraps := err.(interface{ Unwrap() error })
		vAssert("unmarshal-error-wraps-the-parser-error", wraps && w.Unwrap() != nil)
		for _, sentinel := range []error{ErrInputTooLong, ErrURNFormatDisabled} {
			vAssert("same-sentinels-as-the-parser", errorsIs(err, sentinel) == errorsIs(perr, sentinel))
		}
	}
	vReach("ok", err == nil)
	vReach("failed", err != nil)
	if err != nil {
		vAssert("receiver-untouched-on-error", id == pre)
	}
	vAssert("input-not-modified", string(in) == snap)
	// string and bytes agree (value, and the structure of the error)
	r := Rule(vU8("rule") & 3)
	bv, berr := DefaultParser(in, r)
	sv, serr := DefaultParser(string(in), r)
	vAssert("string-bytes-same-value", bv == sv && (berr == nil) == (serr == nil))
	if berr != nil && serr != nil {
		be, bok := berr.(*ParseError[[]byte])
		se, sok := serr.(*ParseError[string])
		vAssert("string-bytes-same-error", bok && sok && be.Func == se.Func && string(be.Input) == se.Input && sameChain(be.Err, se.Err))
	}
	// overwrite the input afterwards: the parsed value does not change
	if berr == nil {
		keep := bv
		for i := range in {
			in[i] = 0xAA
		}
		vAssert("value-independent-of-buffer", bv == keep)
	}
}

// sameChain: both errors are nil, or the same sentinel / same typed value, link by link.
func sameChain(a, b error) bool {
	for {
		if a == nil || b == nil {
			return a == nil && b == nil
		}
		if da, ok := a.(InvalidDigitError); ok {
			db, ok2 := b.(InvalidDigitError)
			return ok2 && da == db
		}
		if a == b {
			return true
		}
		ua, oka := a.(interface{ Unwrap() error })
		ub, okb := b.(interface{ Unwrap() error })
		if !oka || !okb {
			return false
		}
		a, b = ua.Unwrap(), ub.Unwrap()
	}
}
