package uu

//verif:harness C18 quick n=0..4
//verif:harness C18 quick n=35..37
//verif:harness C18 quick n=44..46
func H_C18_totalUU(n int) {
	vMergeOutcomes()
	in := vBytes("in", n)
	r := Rule(vInt("rule"))
	max := vInt("max")
	vAssume(max >= 0)
	save := MaxInputLength
	MaxInputLength = max
	_, e1 := DefaultParser(in, r)
	_, e2 := DefaultParser(string(in), r)
	var id ID
	e3 := id.UnmarshalText(in)
	MaxInputLength = save
	vReach("some-error", e1 != nil || e2 != nil || e3 != nil)
	vAssert("returns-normally", true)
}

//verif:harness C18 quick n=1..3
//verif:harness C18 quick n=36..36
//verif:harness C18 quick n=44..46
//verif:harness C18 quick n=450..450
func H_C18_limitUU(n int) {
	var in []byte
	if n <= 46 {
		in = vBytes("in", n)
	} else {
		in = make([]byte, n)
	}
	max := vInt("max")
	vAssume(max >= 0 && max <= 1<<31)
	r := Rule(vU8("rule") & 3)
	save := MaxInputLength
	MaxInputLength = max
	_, err := DefaultParser(in, r)
	_, serr := DefaultParser(string(in), r)
	MaxInputLength = save
	tooLong := max != 0 && n > max
	vReach("too-long", tooLong)
	vReach("within-limit", !tooLong)
	if tooLong {
		pe, ok := err.(*ParseError[[]byte])
		vAssert("too-long-error", err != nil && errorsIs(err, ErrInputTooLong) && ok && len(pe.Input) == 0)
		se, sok := serr.(*ParseError[string])
		vAssert("too-long-error-string", serr != nil && errorsIs(serr, ErrInputTooLong) && sok && len(se.Input) == 0)
	} else {
		vAssert("never-too-long-within-limit", err == nil || !errorsIs(err, ErrInputTooLong))
		vAssert("never-too-long-within-limit-string", serr == nil || !errorsIs(serr, ErrInputTooLong))
	}
}
