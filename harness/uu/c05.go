package uu

// refHex is an independent hexadecimal digit classifier (no tables shared with the implementation).
func refHex(b byte, upper bool) (uint64, bool) {
	if b >= '0' && b <= '9' {
		return uint64(b) - '0', true
	}
	if b >= 'a' && b <= 'f' {
		return uint64(b) - 'a' + 10, true
	}
	if upper && b >= 'A' && b <= 'F' {
		return uint64(b) - 'A' + 10, true
	}
	return 0, false
}

// refParse36 decides the canonical 36-byte form at in[off:off+36].
func refParse36(in []byte, off int, upper bool) (ok bool, hi, lo uint64) {
	ok = true
	nib := 0
	for p := 0; p < 36; p++ {
		b := in[off+p]
		if p == 8 || p == 13 || p == 18 || p == 23 {
			if b != '-' {
				ok = false
			}
			continue
		}
		v, h := refHex(b, upper)
		if !h {
			ok = false
		}
		if nib < 16 {
			hi = hi<<4 | v
		} else {
			lo = lo<<4 | v
		}
		nib++
	}
	return
}

//verif:harness C05 quick
func H_C05_parse36() {
	in := vBytes("in", 36)
	r := Rule(vU8("rule") & 3)
	id, err := DefaultParser(in, r)
	ok, hi, lo := refParse36(in, 0, r&RuleDisableUpperCaseDigits == 0)
	vReach("accepted", err == nil)
	vReach("rejected", err != nil)
	vAssert("accept-iff-oracle", (err == nil) == ok)
	if err == nil {
		vAssert("value", id.Higher == hi && id.Lower == lo)
	} else {
		_, typed := err.(*ParseError[[]byte])
		vAssert("typed-zero", typed && id == ID{})
	}
}

//verif:harness C05 quick
func H_C05_parse45() {
	in := vBytes("in", 45)
	r := Rule(vU8("rule") & 3)
	id, err := DefaultParser(in, r)
	// independent predicate: prefix [uU][rR][nN]:uuid: then the canonical form; URN form must be enabled
	pre := (in[0] == 'u' || in[0] == 'U') && (in[1] == 'r' || in[1] == 'R') && (in[2] == 'n' || in[2] == 'N') &&
		in[3] == ':' && in[4] == 'u' && in[5] == 'u' && in[6] == 'i' && in[7] == 'd' && in[8] == ':'
	ok36, hi, lo := refParse36(in, 9, r&RuleDisableUpperCaseDigits == 0)
	ok := pre && ok36 && r&RuleDisableURN == 0
	vReach("accepted", err == nil)
	vReach("rejected", err != nil)
	vAssert("accept-iff-oracle", (err == nil) == ok)
	if err == nil {
		vAssert("value", id.Higher == hi && id.Lower == lo)
	} else {
		_, typed := err.(*ParseError[[]byte])
		vAssert("typed-zero", typed && id == ID{})
		if r&RuleDisableURN != 0 {
			vAssert("urn-disabled-sentinel", errorsIs(err, ErrURNFormatDisabled))
		}
	}
}

func errorsIs(err, target error) bool {
	for err != nil {
		if err == target {
			return true
		}
		u, ok := err.(interface{ Unwrap() error })
		if !ok {
			return false
		}
		err = u.Unwrap()
	}
	return false
}

// every other length is rejected (lengths 0..64 except 36 and 45; content arbitrary)
//
//verif:harness C05 quick n=0..35
//verif:harness C05 quick n=37..44
//verif:harness C05 quick n=46..64
func H_C05_otherLength(n int) {
	in := vBytes("in", n)
	r := Rule(vU8("rule") & 3)
	save := MaxInputLength
	if vBool("nolimit") {
		MaxInputLength = 0
	}
	id, err := DefaultParser(in, r)
	MaxInputLength = save
	vReach("rejected", err != nil)
	vAssert("rejected", err != nil)
	if err != nil {
		_, typed := err.(*ParseError[[]byte])
		vAssert("typed-zero", typed && id == ID{})
	}
}

// refNibble gives nibble number k (0 = most significant of Higher) of an ID.
func refNibble(id ID, k int) byte {
	var v uint64
	if k < 16 {
		v = id.Higher >> uint(60-4*k)
	} else {
		v = id.Lower >> uint(60-4*(k-16))
	}
	v &= 0xf
	if v < 10 {
		return byte('0' + v)
	}
	return byte('a' + v - 10)
}

func refLayout(out []byte, off int, id ID) bool {
	ok := true
	k := 0
	for p := 0; p < 36; p++ {
		if p == 8 || p == 13 || p == 18 || p == 23 {
			ok = ok && out[off+p] == '-'
			continue
		}
		ok = ok && out[off+p] == refNibble(id, k)
		k++
	}
	return ok
}

//verif:harness C05 quick
func H_C05_format() {
	id := ID{Higher: vU64("hi"), Lower: vU64("lo")}
	urn := vBool("urn")
	f := Format(0)
	if urn {
		f = FormatURN
	}
	out, err := DefaultFormatter(nil, id, f)
	vAssert("no-error", err == nil)
	if urn {
		vReach("urn", true)
		vAssert("length-45", len(out) == 45)
		if len(out) == 45 {
			vAssert("urn-prefix", string(out[:9]) == "urn:uuid:")
			vAssert("layout", refLayout(out, 9, id))
		}
	} else {
		vReach("plain", true)
		vAssert("length-36", len(out) == 36)
		if len(out) == 36 {
			vAssert("layout", refLayout(out, 0, id))
		}
	}
}

func upperASCII(b []byte) []byte {
	o := make([]byte, len(b))
	for i, c := range b {
		if c >= 'a' && c <= 'z' {
			c -= 'a' - 'A'
		}
		o[i] = c
	}
	return o
}

//verif:harness C05 quick
func H_C05_roundtrip() {
	id := ID{Higher: vU64("hi"), Lower: vU64("lo")}
	r := Rule(vU8("rule") & 3)
	urn := vBool("urn")
	upper := vBool("upper")
	f := Format(0)
	if urn {
		f = FormatURN
	}
	text, _ := DefaultFormatter(nil, id, f)
	if upper {
		// upper-case the 32 hexadecimal digits only; the URN prefix keeps its documented spelling
		n := len(text)
		text = append(append([]byte{}, text[:n-36]...), upperASCII(text[n-36:])...)
	}
	back, err := DefaultParser(text, r)
	sback, serr := DefaultParser(string(text), r)
	allowed := !(urn && r&RuleDisableURN != 0) && !(upper && r&RuleDisableUpperCaseDigits != 0 && hasAlphaDigit(id))
	vReach("accepted", err == nil)
	vReach("rejected-by-rule", err != nil)
	vAssert("accepted-iff-rule-allows", (err == nil) == allowed)
	vAssert("string-agrees", (serr == nil) == (err == nil) && sback == back)
	if err == nil {
		vAssert("same-id", back == id)
	}
	// UnmarshalText / MarshalText / String / URN
	u := ID{Higher: vU64("prev.hi"), Lower: vU64("prev.lo")} // whatever the variable held before
	uerr := u.UnmarshalText(text)
	vAssert("unmarshaltext", uerr == nil && u == id)
	mt, merr := id.MarshalText()
	plain, _ := DefaultFormatter(nil, id, 0)
	vAssert("marshaltext-is-plain", merr == nil && string(mt) == string(plain))
	vAssert("string-is-plain", id.String() == string(plain))
	vAssert("urn-is-prefix-plus-plain", id.URN() == "urn:uuid:"+string(plain))
	// fmt verbs: %u is the URN form, every other verb the plain form
	var su, ss, so vState
	id.Format(&su, 'u')
	id.Format(&ss, 's')
	verb := rune(vU8("verb"))
	vAssume(verb != 'u')
	id.Format(&so, verb)
	vAssert("verb-u-is-urn", string(su.buf) == "urn:uuid:"+string(plain))
	vAssert("verb-s-is-plain", string(ss.buf) == string(plain))
	vAssert("other-verb-is-plain", string(so.buf) == string(plain))
}

type vState struct{ buf []byte }

func (s *vState) Write(b []byte) (int, error) { s.buf = append(s.buf, b...); return len(b), nil }
func (s *vState) Width() (int, bool)          { return 0, false }
func (s *vState) Precision() (int, bool)      { return 0, false }
func (s *vState) Flag(c int) bool             { return false }

func hasAlphaDigit(id ID) bool {
	for k := 0; k < 32; k++ {
		if refNibble(id, k) >= 'a' {
			return true
		}
	}
	return false
}

//verif:harness C05 quick
func H_C05_versionVariant() {
	id := ID{Higher: vU64("hi"), Lower: vU64("lo")}
	// RFC 4122: version = high nibble of time_hi_and_version (octet 6) ; variant = top bits of octet 8
	ver := int(id.Higher>>12) & 15
	vAssert("version", id.Version() == ver)
	top := id.Lower >> 61
	want := 3
	switch {
	case top&4 == 0:
		want = 0
	case top&2 == 0:
		want = 1
	case top&1 == 0:
		want = 2
	}
	vAssert("variant", id.Variant() == want)
	vReach("variant1", id.Variant() == 1)
	vReach("variant3", id.Variant() == 3)
}
