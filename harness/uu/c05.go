package uu

// refHex is an independent hexadecimal digit classifier (no tables shared with the implementation).
func refHex(b byte, upper bool) (uint64, bool) {
	if b >= '0' && b <= '9' {
		return uint64(b) - '0', true
	}
	if b >= 'a' && b <= 'f' {
		return uint64(b) - 'a' + 10, true
	}
	if upper && b >= 'A' && b <= 'F' {
		return uint64(b) - 'A' + 10, true
	}
	return 0, false
}

// refParse36 decides the canonical 36-byte form at in[off:off+36].
func refParse36(in []byte, off int, upper bool) (ok bool, hi, lo uint64) {
	ok = true
	nib := 0
	for p := 0; p < 36; p++ {
		b := in[off+p]
		if p == 8 || p == 13 || p == 18 || p == 23 {
			if b != '-' {
				ok = false
			}
			continue
		}
		v, h := refHex(b, upper)
		if !h {
			ok = false
		}
		if nib < 16 {
			hi = hi<<4 | v
		} else {
			lo = lo<<4 | v
		}
		nib++
	}
	return
}

//verif:harness C05 quick
func H_C05_parse36() {
	in := vBytes("in", 36)
	r := Rule(vU8("rule") & 3)
	id, err := DefaultParser(in, r)
	ok, hi, lo := refParse36(in, 0, r&RuleDisableUpperCaseDigits == 0)
	vReach("accepted", err == nil)
	vReach("rejected", err != nil)
	vAssert("accept-iff-oracle", (err == nil) == ok)
	if err == nil {
		vAssert("value", id.Higher == hi && id.Lower == lo)
	} else {
		_, typed := err.(*ParseError[[]byte])
		vAssert("typed-zero", typed && id == ID{})
	}
}
