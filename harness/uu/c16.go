package uu

//verif:harness C16 quick p=0..3 spare=0..1
//verif:harness C16 quick p=2..2 spare=36..36
//verif:harness C16 quick p=2..2 spare=64..64
//verif:harness C16 quick p=9..9 spare=0..1
//verif:harness C16 quick p=13..13 spare=45..45
//verif:harness C16 thorough p=4..8 spare=0..1
//verif:harness C16 thorough p=8..8 spare=44..46
func H_C16_uu(p int, spare int) {
	prefix := vBytes("prefix", p)
	buf := make([]byte, p, p+spare)
	copy(buf, prefix)
	snap := string(prefix)
	id := ID{Higher: vU64("hi"), Lower: vU64("lo")}
	f := Format(vU8("f") & 1)
	r, err := DefaultFormatter(buf, id, f)
	base, _ := DefaultFormatter(nil, id, f)
	vAssert("no-error", err == nil)
	vAssert("prefix-kept", len(r) >= p && string(r[:p]) == snap)
	vAssert("suffix-is-plain-output", len(r) >= p && string(r[p:]) == string(base))
	vAssert("caller-bytes-untouched", string(buf[:p]) == snap)
	vReach("urn", f == FormatURN)
}

// the caller's buffer is the result of an earlier call: the earlier bytes stay what they were and the new text
// follows them
//
//verif:harness C16 quick
func H_C16_uuChain() {
	id1 := ID{Higher: vU64("hi1"), Lower: vU64("lo1")}
	id2 := ID{Higher: vU64("hi2"), Lower: vU64("lo2")}
	f1, f2 := Format(0), Format(0)
	if vBool("urn1") {
		f1 = FormatURN
	}
	if vBool("urn2") {
		f2 = FormatURN
	}
	a, _ := DefaultFormatter(nil, id2, f2)
	alone := string(a)
	first, err1 := DefaultFormatter(nil, id1, f1)
	snap := string(first)
	second, err2 := DefaultFormatter(first, id2, f2)
	vAssert("no-error", err1 == nil && err2 == nil)
	vAssert("earlier-text-kept-and-new-text-appended", string(second) == snap+alone)
	vAssert("earlier-result-untouched", string(first) == snap)
}
