package uu

import (
	"math/rand"
	"strconv"
)

// vecSource feeds the replay vector's draws to the real generator when a counterexample is replayed natively.
type vecSource struct{ n, base int }

func (s *vecSource) Int63() int64 {
	s.n++
	return int64(vU64("rand"+strconv.Itoa(s.n+s.base)) &^ (1 << 63))
}
func (s *vecSource) Seed(int64) {}

// draw calls RandomID; natively the generator is first replaced by one that returns the recorded draws.
func draw() ID { return drawK(0) }

// drawK is the k-th call of RandomID in a run (k = 0, 1, ...): the executor names the draws rand1, rand2, ... in call
// order, so the k-th call uses rand(2k+1) and rand(2k+2). (No package-level counter: package variables written by
// the harness would become events of the lock-discipline query.)
func drawK(k int) ID {
	if vNative() {
		randomMutex.Lock()
		random = rand.New(&vecSource{base: 2 * k})
		randomMutex.Unlock()
	}
	return RandomID()
}

//verif:harness C19 quick
func H_C19_masks() {
	vRecordGlobals() // reads and writes of package variables take part in the lock-discipline query
	id := draw()
	vAssert("version-4", id.Version() == 4)
	vAssert("variant-1", id.Variant() == 1)
	// RFC 4122 field positions written independently of the accessors
	vAssert("version-bits", (id.Higher>>12)&0xf == 4)
	vAssert("variant-bits", id.Lower>>62 == 2)
}

// every one of the 122 free bits takes both values over the draws
//
//verif:harness C19 quick k=0..63
func H_C19_freeBitHigher(k int) {
	id := draw()
	if k >= 12 && k <= 15 {
		return
	}
	b := id.Higher>>uint(k)&1 == 1
	vMust("bit-can-be-1", b) // required of every single bit (per run), not just of some bit
	vMust("bit-can-be-0", !b)
}

//verif:harness C19 quick k=0..61
func H_C19_freeBitLower(k int) {
	id := draw()
	b := id.Lower>>uint(k)&1 == 1
	vMust("bit-can-be-1", b) // required of every single bit (per run), not just of some bit
	vMust("bit-can-be-0", !b)
}

// neighbouring free bits are not tied together: all four combinations occur
//
//verif:harness C19 thorough k=0..126
func HT_C19_adjacentBits(k int) {
	id := draw()
	bit := func(i int) bool {
		if i < 64 {
			return id.Lower>>uint(i)&1 == 1
		}
		return id.Higher>>uint(i-64)&1 == 1
	}
	fixed := func(i int) bool { return i == 62 || i == 63 || (i >= 64+12 && i <= 64+15) }
	if fixed(k) || fixed(k+1) {
		return
	}
	x, y := bit(k), bit(k+1)
	vMust("00", !x && !y)
	vMust("01", !x && y)
	vMust("10", x && !y)
	vMust("11", x && y)
}

// parity of the bits of x
func parity64(x uint64) uint64 {
	x ^= x >> 32
	x ^= x >> 16
	x ^= x >> 8
	x ^= x >> 4
	x ^= x >> 2
	x ^= x >> 1
	return x & 1
}

// Joint freedom of the 122 random bits. (1) The ID is an affine function over GF(2) of the 126 draw bits:
// f(x ^ y) = f(x) ^ f(y) ^ f(0) for all x, y. (2) Its linear part has full rank on the 122 free positions: there is
// no non-empty set of free bits whose parity is the same for the zero draw and all 126 unit draws. Together: every
// one of the 2^122 combinations of the free bits is produced by exactly 16 of the 2^126 draws, so no bit is tied to
// another, duplicated or derived from others - which per-bit and adjacent-pair witnesses cannot show.
//
//verif:harness C19 quick
func H_C19_jointFreedom() {
	x := drawK(0) // rand1, rand2: arbitrary
	y := drawK(1) // rand3, rand4: arbitrary
	s := drawK(2) // rand5, rand6 := the sum of the two
	z := drawK(3) // rand7, rand8 := 0
	vAssume(vU64("rand5") == vU64("rand1")^vU64("rand3") && vU64("rand6") == vU64("rand2")^vU64("rand4"))
	vAssume(vU64("rand7") == 0 && vU64("rand8") == 0)
	vAssert("id-is-affine-in-the-draws", s.Higher == x.Higher^y.Higher^z.Higher && s.Lower == x.Lower^y.Lower^z.Lower)

	// a set of free bit positions (non-empty, avoiding version and variant)
	mH, mL := vU64("maskHigher"), vU64("maskLower")
	vAssume(mH&0xf000 == 0 && mL>>62 == 0 && (mH != 0 || mL != 0))
	odd := uint64(0)
	for i := 0; i < 126; i++ {
		e := drawK(4 + i) // rand(9+2i), rand(10+2i) := i-th unit vector of the 126 draw bits
		a, b := uint64(0), uint64(0)
		if i < 63 {
			a = 1 << uint(i)
		} else {
			b = 1 << uint(i-63)
		}
		vAssume(vU64("rand"+strconv.Itoa(9+2*i)) == a && vU64("rand"+strconv.Itoa(10+2*i)) == b)
		odd |= parity64(mH&(e.Higher^z.Higher)) ^ parity64(mL&(e.Lower^z.Lower))
	}
	vAssert("no-parity-of-free-bits-is-constant", odd == 1)
	vReach("assumptions-satisfiable", true)
}
