package uu

import "math/rand"

// vecSource feeds the replay vector's draws to the real generator when a counterexample is replayed natively.
type vecSource struct{ n int }

func (s *vecSource) Int63() int64 {
	s.n++
	if s.n == 1 {
		return int64(vU64("rand1") &^ (1 << 63))
	}
	return int64(vU64("rand2") &^ (1 << 63))
}
func (s *vecSource) Seed(int64) {}

// draw calls RandomID; natively the generator is first replaced by one that returns the recorded draws.
func draw() ID {
	if vNative() {
		randomMutex.Lock()
		random = rand.New(&vecSource{})
		randomMutex.Unlock()
	}
	return RandomID()
}

//verif:harness C19 quick
func H_C19_masks() {
	vRecordGlobals() // reads and writes of package variables take part in the lock-discipline query
	id := draw()
	vAssert("version-4", id.Version() == 4)
	vAssert("variant-1", id.Variant() == 1)
	// RFC 4122 field positions written independently of the accessors
	vAssert("version-bits", (id.Higher>>12)&0xf == 4)
	vAssert("variant-bits", id.Lower>>62 == 2)
}

// every one of the 122 free bits takes both values over the draws
//
//verif:harness C19 quick k=0..63
func H_C19_freeBitHigher(k int) {
	id := draw()
	if k >= 12 && k <= 15 {
		return
	}
	b := id.Higher>>uint(k)&1 == 1
	vMust("bit-can-be-1", b) // required of every single bit (per run), not just of some bit
	vMust("bit-can-be-0", !b)
}

//verif:harness C19 quick k=0..61
func H_C19_freeBitLower(k int) {
	id := draw()
	b := id.Lower>>uint(k)&1 == 1
	vMust("bit-can-be-1", b) // required of every single bit (per run), not just of some bit
	vMust("bit-can-be-0", !b)
}

// neighbouring free bits are not tied together: all four combinations occur
//
//verif:harness C19 thorough k=0..126
func HT_C19_adjacentBits(k int) {
	id := draw()
	bit := func(i int) bool {
		if i < 64 {
			return id.Lower>>uint(i)&1 == 1
		}
		return id.Higher>>uint(i-64)&1 == 1
	}
	fixed := func(i int) bool { return i == 62 || i == 63 || (i >= 64+12 && i <= 64+15) }
	if fixed(k) || fixed(k+1) {
		return
	}
	x, y := bit(k), bit(k+1)
	vMust("00", !x && !y)
	vMust("01", !x && y)
	vMust("10", x && !y)
	vMust("11", x && y)
}
