package test

// Binary and JSON variants of the C20 harnesses (generated from the text variant: the helpers share one flow).

func (s scriptM) MarshalBinary() ([]byte, error) { return s.MarshalText() }
func (s scriptM) MarshalJSON() ([]byte, error)   { return s.MarshalText() }
func (s *scriptU) UnmarshalBinary(b []byte) error { return s.UnmarshalText(b) }
func (s *scriptU) UnmarshalJSON(b []byte) error   { return s.UnmarshalText(b) }

func hookBinary(kind int) func(index int, c *CaseBinary[scriptM]) error {
	switch kind {
	case 1:
		return func(int, *CaseBinary[scriptM]) error { return nil }
	case 2:
		return func(int, *CaseBinary[scriptM]) error { return errBoom }
	case 3:
		return func(int, *CaseBinary[scriptM]) error { panic("hook panic") }
	}
	return nil
}

func hookUBinary(kind int) func(index int, c *CaseBinary[scriptU]) error {
	switch kind {
	case 1:
		return func(int, *CaseBinary[scriptU]) error { return nil }
	case 2:
		return func(int, *CaseBinary[scriptU]) error { return errBoom }
	case 3:
		return func(int, *CaseBinary[scriptU]) error { panic("hook panic") }
	}
	return nil
}

// one case through MarshalBinary: failure reported iff the independent per-case oracle says so
//
//verif:harness C20 quick mode=0..4 pred=0..2 cons=0..1 hooks=0..3
//verif:harness C20 thorough mode=0..4 pred=0..8 cons=0..2 hooks=4..15
func H_C20_marshalBinary(mode int, pred int, cons int, hooks int) {
	if pred >= 2 && mode == 4 {
		return // the text of a panic error contains a stack trace: only AnyError is meaningful there
	}
	before, after := hooks%4, hooks/4
	expected := vStr("expected", 2)
	actual := expected
	if mode == 1 {
		actual = vStr("actual", 2)
		vAssume(actual != expected)
	}
	c := CaseBinary[scriptM]{Constraint: Constraint(cons), Before: hookBinary(before), After: hookBinary(after), Error: pickPred(pred), Data: []byte(expected), Value: scriptM{mode: mode, data: actual}}
	rec := &recT{}
	escaped := func() (p bool) {
		defer func() {
			if recover() != nil {
				p = true
			}
		}()
		MarshalBinary[scriptM](rec, []CaseBinary[scriptM]{c})
		return false
	}()
	// oracle
	want := false
	if cons == 0 || cons == int(OnlyMarshal) {
		switch {
		case before >= 2:
			want = true
		case after >= 2:
			want = true
		case pred != 0:
			if !predHolds(pred, mode) {
				want = true
			} else if mode == 3 {
				want = true // data alongside an expected error
			}
		default:
			want = mode >= 1 // wrong data, any error, panic
		}
	}
	vAssert("no-panic-escapes", !escaped)
	knownErrorMatch(pred, mode, before, after, cons == 0 || cons == int(OnlyMarshal))
	vAssert("failure-reported-iff-case-not-satisfied", (rec.errs > 0) == want)
	vAssert("no-failnow-for-a-marshaler-type", rec.failNow == 0)
	vReach("failing-case", want)
	vReach("passing-case", !want)
}

//verif:harness C20 quick mode=0..4 pred=0..2 cons=0..1 hooks=0..3
//verif:harness C20 thorough mode=0..4 pred=0..8 cons=0..2 hooks=4..15
func H_C20_unmarshalBinary(mode int, pred int, cons int, hooks int) {
	if pred >= 2 && mode == 4 {
		return
	}
	before, after := hooks%4, hooks/4
	data := vStr("data", 2)
	c := CaseBinary[scriptU]{Constraint: Constraint(cons), Before: hookUBinary(before), After: hookUBinary(after), Error: pickPred(pred), Data: []byte(data), Value: scriptU{mode: mode, got: data}}
	rec := &recT{}
	escaped := func() (p bool) {
		defer func() {
			if recover() != nil {
				p = true
			}
		}()
		UnmarshalBinary[scriptU](rec, []CaseBinary[scriptU]{c}, scriptUHelper{})
		return false
	}()
	want := false
	if cons == 0 || cons == int(OnlyUnmarshal) {
		switch {
		case before >= 2:
			want = true
		case after >= 2:
			want = true
		case pred != 0:
			if !predHolds(pred, mode) {
				want = true
			} else if mode == 3 {
				want = true // a value stored alongside an expected error
			}
		default:
			want = mode >= 1
		}
	}
	vAssert("no-panic-escapes", !escaped)
	knownErrorMatch(pred, mode, before, after, cons == 0 || cons == int(OnlyUnmarshal))
	vAssert("failure-reported-iff-case-not-satisfied", (rec.errs > 0) == want)
	vReach("failing-case", want)
	vReach("passing-case", !want)
}

func hookJSON(kind int) func(index int, c *CaseJSON[scriptM]) error {
	switch kind {
	case 1:
		return func(int, *CaseJSON[scriptM]) error { return nil }
	case 2:
		return func(int, *CaseJSON[scriptM]) error { return errBoom }
	case 3:
		return func(int, *CaseJSON[scriptM]) error { panic("hook panic") }
	}
	return nil
}

func hookUJSON(kind int) func(index int, c *CaseJSON[scriptU]) error {
	switch kind {
	case 1:
		return func(int, *CaseJSON[scriptU]) error { return nil }
	case 2:
		return func(int, *CaseJSON[scriptU]) error { return errBoom }
	case 3:
		return func(int, *CaseJSON[scriptU]) error { panic("hook panic") }
	}
	return nil
}

// one case through MarshalJSON: failure reported iff the independent per-case oracle says so
//
//verif:harness C20 quick mode=0..5 pred=0..2 cons=0..1 hooks=0..3
//verif:harness C20 thorough mode=0..5 pred=0..8 cons=0..2 hooks=4..15
func H_C20_marshalJSON(mode int, pred int, cons int, hooks int) {
	if pred >= 2 && mode == 4 {
		return // the text of a panic error contains a stack trace: only AnyError is meaningful there
	}
	before, after := hooks%4, hooks/4
	expected := vStr("expected", 2)
	if mode == 5 {
		expected = "" // a nil result is the right data exactly for the empty text
	}
	actual := expected
	if mode == 1 {
		actual = vStr("actual", 2)
		vAssume(actual != expected)
	}
	c := CaseJSON[scriptM]{Constraint: Constraint(cons), Before: hookJSON(before), After: hookJSON(after), Error: pickPred(pred), Data: expected, Value: scriptM{mode: mode, data: actual}}
	rec := &recT{}
	escaped := func() (p bool) {
		defer func() {
			if recover() != nil {
				p = true
			}
		}()
		MarshalJSON[scriptM](rec, []CaseJSON[scriptM]{c})
		return false
	}()
	// oracle
	want := false
	if cons == 0 || cons == int(OnlyMarshal) {
		switch {
		case before >= 2:
			want = true
		case after >= 2:
			want = true
		case pred != 0:
			if !predHolds(pred, mode) {
				want = true
			} else if mode == 3 {
				want = true // data alongside an expected error
			}
		default:
			want = mode >= 1 && mode != 5 // wrong data, any error, panic
		}
	}
	vAssert("no-panic-escapes", !escaped)
	knownErrorMatch(pred, mode, before, after, cons == 0 || cons == int(OnlyMarshal))
	vAssert("failure-reported-iff-case-not-satisfied", (rec.errs > 0) == want)
	vAssert("no-failnow-for-a-marshaler-type", rec.failNow == 0)
	vReach("failing-case", want)
	vReach("passing-case", !want)
}

//verif:harness C20 quick mode=0..4 pred=0..2 cons=0..1 hooks=0..3
//verif:harness C20 thorough mode=0..4 pred=0..8 cons=0..2 hooks=4..15
func H_C20_unmarshalJSON(mode int, pred int, cons int, hooks int) {
	if pred >= 2 && mode == 4 {
		return
	}
	before, after := hooks%4, hooks/4
	data := vStr("data", 2)
	c := CaseJSON[scriptU]{Constraint: Constraint(cons), Before: hookUJSON(before), After: hookUJSON(after), Error: pickPred(pred), Data: data, Value: scriptU{mode: mode, got: data}}
	rec := &recT{}
	escaped := func() (p bool) {
		defer func() {
			if recover() != nil {
				p = true
			}
		}()
		UnmarshalJSON[scriptU](rec, []CaseJSON[scriptU]{c}, scriptUHelper{})
		return false
	}()
	want := false
	if cons == 0 || cons == int(OnlyUnmarshal) {
		switch {
		case before >= 2:
			want = true
		case after >= 2:
			want = true
		case pred != 0:
			if !predHolds(pred, mode) {
				want = true
			} else if mode == 3 {
				want = true // a value stored alongside an expected error
			}
		default:
			want = mode >= 1
		}
	}
	vAssert("no-panic-escapes", !escaped)
	knownErrorMatch(pred, mode, before, after, cons == 0 || cons == int(OnlyUnmarshal))
	vAssert("failure-reported-iff-case-not-satisfied", (rec.errs > 0) == want)
	vReach("failing-case", want)
	vReach("passing-case", !want)
}

