package test

import (
	"errors"
)

// recT records what a helper reports.
type recT struct {
	errs    int
	failNow int
}

func (r *recT) Errorf(format string, args ...any) { r.errs++ }
func (r *recT) FailNow()                          { r.failNow++ }
func (r *recT) Helper()                           {}

var errBoom = errors.New("boom")

// scripted marshaler (value receiver): mode 0 right data, 1 other data, 2 error, 3 error together with data, 4 panic,
// 5 a nil slice and no error (right data exactly when the empty text is expected), 6 panic whose value is the error
// "boom" itself (the helpers turn every panic into an error "panic: <value>\n<stack>", so it must not pass for "boom")
type scriptM struct {
	mode int
	data string
}

func (s scriptM) MarshalText() ([]byte, error) {
	switch s.mode {
	case 0, 1:
		return []byte(s.data), nil
	case 2:
		return nil, errBoom
	case 3:
		return []byte(s.data), errBoom
	case 5:
		return nil, nil
	case 6:
		panic(errBoom)
	}
	panic("scripted panic")
}

// scripted unmarshaler (pointer receiver): mode 0 stores the data, 1 stores something else, 2 error and leaves the
// receiver empty, 3 error but also stores data, 4 panic
type scriptU struct {
	mode int
	got  string
}

func (s *scriptU) UnmarshalText(b []byte) error {
	switch s.mode {
	case 0:
		s.got = string(b)
		return nil
	case 1:
		s.got = string(b) + "x"
		return nil
	case 2:
		return errBoom
	case 3:
		s.got = string(b)
		return errBoom
	case 6:
		panic(errBoom)
	}
	panic("scripted panic")
}

// scriptUHelper builds receivers carrying the case's script and compares only what was stored.
type scriptUHelper struct{}

func (scriptUHelper) New(v scriptU) scriptU { return scriptU{mode: v.mode} }
func (scriptUHelper) AssertEmpty(t TestingT, v scriptU, failInfo string) {
	if v.got != "" {
		t.Errorf("not empty: %s", failInfo)
	}
}
func (scriptUHelper) AssertEqual(t TestingT, expected, actual scriptU, failInfo string) {
	if expected.got != actual.got {
		t.Errorf("not equal: %s", failInfo)
	}
}

func pickPred(kind int) AssertErrorFunc {
	switch kind {
	case 1:
		return AnyError
	case 2:
		return Error("boom")
	case 3:
		return Error("other text")
	case 4:
		return ErrorHasPrefix("bo")
	case 5:
		return ErrorHasSuffix("xx")
	case 6:
		return ErrorMatch("^bo+m$")
	case 7:
		return ErrorMatch("ab.")
	case 8:
		return ErrorMatch("ab(.") // not a valid pattern: reported through the compile error
	case 9:
		return ErrorHasPrefix("panic: ") // what every recovered panic is documented to start with
	}
	return nil
}

// knownErrorMatch names the one class of C20 violations that is a recorded finding (known_findings.json): a valid
// ErrorMatch pattern that does not match the error text makes the predicate return false without reporting.
func knownErrorMatch(pred, mode, before, after int, applicable bool) {
	vKnown("C20/errormatch-mismatch-not-reported", pred == 7 && (mode == 2 || mode == 3) && before < 2 && after < 2 && applicable)
}

// predHolds: does the predicate accept the error produced by a scripted call in the given mode?
func predHolds(kind int, mode int) bool {
	hasErr := (mode >= 2 && mode <= 4) || mode == 6
	switch kind {
	case 1:
		return hasErr
	case 2, 4, 6:
		return mode == 2 || mode == 3 // the panic error has another text: "panic: <value>\n<stack>"
	case 3, 5, 7, 8:
		return false
	case 9:
		return mode == 4 || mode == 6
	}
	return false
}

func hook(kind int) func(index int, c *CaseText[scriptM]) error {
	switch kind {
	case 1:
		return func(int, *CaseText[scriptM]) error { return nil }
	case 2:
		return func(int, *CaseText[scriptM]) error { return errBoom }
	case 3:
		return func(int, *CaseText[scriptM]) error { panic("hook panic") }
	}
	return nil
}

func hookU(kind int) func(index int, c *CaseText[scriptU]) error {
	switch kind {
	case 1:
		return func(int, *CaseText[scriptU]) error { return nil }
	case 2:
		return func(int, *CaseText[scriptU]) error { return errBoom }
	case 3:
		return func(int, *CaseText[scriptU]) error { panic("hook panic") }
	}
	return nil
}

// one case through MarshalText: failure reported iff the independent per-case oracle says so
//
//verif:harness C20 quick mode=0..6 pred=0..9 cons=0..2 hooks=0..15
func H_C20_marshalText(mode int, pred int, cons int, hooks int) {
	if (pred == 6 || pred == 7) && (mode == 4 || mode == 6) {
		return // a valid ErrorMatch pattern that does not match is the recorded finding; it is exercised on the error modes
	}
	before, after := hooks%4, hooks/4
	expected := vStr("expected", 2)
	if mode == 5 {
		expected = "" // a nil result is the right data exactly for the empty text
	}
	actual := expected
	if mode == 1 {
		actual = vStr("actual", 2)
		vAssume(actual != expected)
	}
	c := CaseText[scriptM]{Constraint: Constraint(cons), Before: hook(before), After: hook(after), Error: pickPred(pred), Data: expected, Value: scriptM{mode: mode, data: actual}}
	rec := &recT{}
	escaped := func() (p bool) {
		defer func() {
			if recover() != nil {
				p = true
			}
		}()
		MarshalText[scriptM](rec, []CaseText[scriptM]{c})
		return false
	}()
	// oracle
	want := false
	if cons == 0 || cons == int(OnlyMarshal) {
		switch {
		case before >= 2:
			want = true
		case after >= 2:
			want = true
		case pred != 0:
			if !predHolds(pred, mode) {
				want = true
			} else if mode == 3 {
				want = true // data alongside an expected error
			}
		default:
			want = mode >= 1 && mode != 5 // wrong data, any error, panic
		}
	}
	vAssert("no-panic-escapes", !escaped)
	knownErrorMatch(pred, mode, before, after, cons == 0 || cons == int(OnlyMarshal))
	vAssert("failure-reported-iff-case-not-satisfied", (rec.errs > 0) == want)
	vAssert("no-failnow-for-a-marshaler-type", rec.failNow == 0)
	vReach("failing-case", want)
	vReach("passing-case", !want)
}

//verif:harness C20 quick mode=0..4 pred=0..9 cons=0..2 hooks=0..15
//verif:harness C20 quick mode=6..6 pred=0..9 cons=0..2 hooks=0..15
func H_C20_unmarshalText(mode int, pred int, cons int, hooks int) {
	if (pred == 6 || pred == 7) && (mode == 4 || mode == 6) {
		return
	}
	before, after := hooks%4, hooks/4
	data := vStr("data", 2)
	c := CaseText[scriptU]{Constraint: Constraint(cons), Before: hookU(before), After: hookU(after), Error: pickPred(pred), Data: data, Value: scriptU{mode: mode, got: data}}
	rec := &recT{}
	escaped := func() (p bool) {
		defer func() {
			if recover() != nil {
				p = true
			}
		}()
		UnmarshalText[scriptU](rec, []CaseText[scriptU]{c}, scriptUHelper{})
		return false
	}()
	want := false
	if cons == 0 || cons == int(OnlyUnmarshal) {
		switch {
		case before >= 2:
			want = true
		case after >= 2:
			want = true
		case pred != 0:
			if !predHolds(pred, mode) {
				want = true
			} else if mode == 3 {
				want = true // a value stored alongside an expected error
			}
		default:
			want = mode >= 1
		}
	}
	vAssert("no-panic-escapes", !escaped)
	knownErrorMatch(pred, mode, before, after, cons == 0 || cons == int(OnlyUnmarshal))
	vAssert("failure-reported-iff-case-not-satisfied", (rec.errs > 0) == want)
	vReach("failing-case", want)
	vReach("passing-case", !want)
}

// a type without the interface: one failure and FailNow, nothing else is attempted
type plain struct{ x int }

//verif:harness C20 quick
func H_C20_missingInterface() {
	rec := &recT{}
	MarshalText[plain](rec, []CaseText[plain]{{Data: "a"}, {Data: "b"}})
	vAssert("marshal-reports-and-stops", rec.errs == 1 && rec.failNow == 1)
	rec2 := &recT{}
	UnmarshalText[plain](rec2, []CaseText[plain]{{Data: "a"}}, nil)
	vAssert("unmarshal-reports-and-stops", rec2.errs == 1 && rec2.failNow == 1)
}

// two cases: the second is still judged after the first failed; the other direction's cases are ignored
//
//verif:harness C20 quick m1=0..3 m2=0..3
func H_C20_twoCases(m1 int, m2 int) {
	d := vStr("d", 1)
	cases := []CaseText[scriptM]{
		{Data: d, Value: scriptM{mode: m1, data: d}},
		{Constraint: OnlyUnmarshal, Data: "zz", Value: scriptM{mode: 2}},
		{Data: d, Value: scriptM{mode: m2, data: d}},
	}
	rec := &recT{}
	MarshalText[scriptM](rec, cases)
	// mode 1 hands back the expected data here (same d), so only the error modes fail
	fails := 0
	if m1 >= 2 {
		fails++
	}
	if m2 >= 2 {
		fails++
	}
	vAssert("each-failing-case-reported-once", rec.errs == fails)
}
