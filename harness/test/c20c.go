package test

// Lists of three cases through each of the six helpers: the first two cases carry every combination of direction
// constraints (so a list may start with a case of the other direction), every case has its own scripted behaviour.
// Each failing applicable case is reported exactly once, cases of the other direction are ignored wherever they
// stand, nothing escapes, and a type lacking the interface is reported (and FailNow called) even when the list
// starts with a case of the other direction.

func failingMarshal(mode int) bool   { return mode >= 2 } // mode 1 hands back the expected data here (same d)
func failingUnmarshal(mode int) bool { return mode >= 1 }

func runList(helper int, cons [3]int, modes [3]int, d string) (rec *recT, escaped bool) {
	rec = &recT{}
	defer func() {
		if recover() != nil {
			escaped = true
		}
	}()
	switch helper {
	case 0:
		cs := make([]CaseText[scriptM], 3)
		for i := range cs {
			cs[i] = CaseText[scriptM]{Constraint: Constraint(cons[i]), Data: d, Value: scriptM{mode: modes[i], data: d}}
		}
		MarshalText[scriptM](rec, cs)
	case 1:
		cs := make([]CaseText[scriptU], 3)
		for i := range cs {
			cs[i] = CaseText[scriptU]{Constraint: Constraint(cons[i]), Data: d, Value: scriptU{mode: modes[i], got: d}}
		}
		UnmarshalText[scriptU](rec, cs, scriptUHelper{})
	case 2:
		cs := make([]CaseBinary[scriptM], 3)
		for i := range cs {
			cs[i] = CaseBinary[scriptM]{Constraint: Constraint(cons[i]), Data: []byte(d), Value: scriptM{mode: modes[i], data: d}}
		}
		MarshalBinary[scriptM](rec, cs)
	case 3:
		cs := make([]CaseBinary[scriptU], 3)
		for i := range cs {
			cs[i] = CaseBinary[scriptU]{Constraint: Constraint(cons[i]), Data: []byte(d), Value: scriptU{mode: modes[i], got: d}}
		}
		UnmarshalBinary[scriptU](rec, cs, scriptUHelper{})
	case 4:
		cs := make([]CaseJSON[scriptM], 3)
		for i := range cs {
			cs[i] = CaseJSON[scriptM]{Constraint: Constraint(cons[i]), Data: d, Value: scriptM{mode: modes[i], data: d}}
		}
		MarshalJSON[scriptM](rec, cs)
	default:
		cs := make([]CaseJSON[scriptU], 3)
		for i := range cs {
			cs[i] = CaseJSON[scriptU]{Constraint: Constraint(cons[i]), Data: d, Value: scriptU{mode: modes[i], got: d}}
		}
		UnmarshalJSON[scriptU](rec, cs, scriptUHelper{})
	}
	return rec, false
}

//verif:harness C20 quick helper=0..5 c0=0..2 c1=0..2 m0=0..3 m1=0..3
func H_C20_lists(helper int, c0 int, c1 int, m0 int, m1 int) {
	m2 := vInt("m2")
	vAssume(m2 >= 0 && m2 <= 3)
	d := vStr("d", 1)
	cons := [3]int{c0, c1, 0}
	modes := [3]int{m0, m1, m2}
	rec, escaped := runList(helper, cons, modes, d)
	marshal := helper%2 == 0
	fails := 0
	for i := 0; i < 3; i++ {
		applicable := cons[i] == 0 || (marshal && cons[i] == int(OnlyMarshal)) || (!marshal && cons[i] == int(OnlyUnmarshal))
		if applicable && ((marshal && failingMarshal(modes[i])) || (!marshal && failingUnmarshal(modes[i]))) {
			fails++
		}
	}
	vAssert("no-panic-escapes", !escaped)
	vAssert("each-failing-applicable-case-reported-once", rec.errs == fails)
	vAssert("no-failnow", rec.failNow == 0)
	vReach("list-starts-with-other-direction", (marshal && c0 == int(OnlyUnmarshal)) || (!marshal && c0 == int(OnlyMarshal)))
	vReach("some-failure", fails > 0)
}

func runPlainList(helper int, c0 int) (rec *recT, escaped bool) {
	rec = &recT{}
	defer func() {
		if recover() != nil {
			escaped = true
		}
	}()
	switch helper {
	case 0:
		MarshalText[plain](rec, []CaseText[plain]{{Constraint: Constraint(c0), Data: "a"}, {Data: "b"}})
	case 1:
		UnmarshalText[plain](rec, []CaseText[plain]{{Constraint: Constraint(c0), Data: "a"}, {Data: "b"}}, nil)
	case 2:
		MarshalBinary[plain](rec, []CaseBinary[plain]{{Constraint: Constraint(c0), Data: []byte("a")}, {Data: []byte("b")}})
	case 3:
		UnmarshalBinary[plain](rec, []CaseBinary[plain]{{Constraint: Constraint(c0), Data: []byte("a")}, {Data: []byte("b")}}, nil)
	case 4:
		MarshalJSON[plain](rec, []CaseJSON[plain]{{Constraint: Constraint(c0), Data: "1"}, {Data: "2"}})
	default:
		UnmarshalJSON[plain](rec, []CaseJSON[plain]{{Constraint: Constraint(c0), Data: "1"}, {Data: "2"}}, nil)
	}
	return rec, false
}

// a type lacking the interface, whatever direction the first case is restricted to: one failure, FailNow, no panic
//
//verif:harness C20 quick helper=0..5 c0=0..2
func H_C20_missingInterfaceLists(helper int, c0 int) {
	rec, escaped := runPlainList(helper, c0)
	vAssert("no-panic-escapes", !escaped)
	vAssert("missing-interface-reported-and-stopped", rec.errs == 1 && rec.failNow == 1)
}

// ---- pointer type parameters: T = *scriptU ----

type scriptPHelper struct{}

func (scriptPHelper) New(v *scriptU) *scriptU { return &scriptU{mode: v.mode} }
func (scriptPHelper) AssertEmpty(t TestingT, v *scriptU, failInfo string) {
	if v.got != "" {
		t.Errorf("not empty: %s", failInfo)
	}
}
func (scriptPHelper) AssertEqual(t TestingT, expected, actual *scriptU, failInfo string) {
	if expected.got != actual.got {
		t.Errorf("not equal: %s", failInfo)
	}
}

// the unmarshal helpers with a pointer type parameter: with a TypeHelper its New builds the receiver (the script
// travels with it); without one the receiver is a fresh zero value behind a new pointer (reflect.New)
//
//verif:harness C20 quick helper=0..2 mode=0..3 withHelper=0..1
func H_C20_pointerType(helper int, mode int, withHelper int) {
	d := vStr("d", 1)
	if withHelper == 0 && mode != 0 {
		return // without a helper the script cannot reach the fresh receiver: only the plain behaviour is meaningful
	}
	rec := &recT{}
	escaped := func() (p bool) {
		defer func() {
			if recover() != nil {
				p = true
			}
		}()
		var h TypeHelper[*scriptU]
		if withHelper == 1 {
			h = scriptPHelper{}
		}
		switch helper {
		case 0:
			UnmarshalText[*scriptU](rec, []CaseText[*scriptU]{{Data: d, Value: &scriptU{mode: mode, got: d}}}, h)
		case 1:
			UnmarshalBinary[*scriptU](rec, []CaseBinary[*scriptU]{{Data: []byte(d), Value: &scriptU{mode: mode, got: d}}}, h)
		default:
			UnmarshalJSON[*scriptU](rec, []CaseJSON[*scriptU]{{Data: d, Value: &scriptU{mode: mode, got: d}}}, h)
		}
		return false
	}()
	vAssert("no-panic-escapes", !escaped)
	vAssert("failure-reported-iff-case-not-satisfied", (rec.errs > 0) == failingUnmarshal(mode))
	vAssert("no-failnow", rec.failNow == 0)
	vReach("reached", true)
}
