#!/bin/bash
# tools/seedtest.sh <PROP> <i> [check-props...]: confirm a sub-agent's seeded change in its scratch worktree,
# store it under /verif/seeded/<PROP>-<i>/, then apply it to /repo, run the checks, and undo it straight afterwards.
set -u
export GOFLAGS=-mod=mod GOPROXY=off GOSUMDB=off GOTOOLCHAIN=local
P=$1; I=$2; shift 2
CHECKS="${*:-$P}"
WT=/tmp/wt_$P
OUT=/verif/seeded/$P-$I
mkdir -p $OUT
patch=$WT/seed_$I.patch
demo=$WT/seed_${I}_demo_test.go.txt
pkg=$(grep -m1 '^package ' $demo | awk '{print $2}' | sed 's/_test$//')
race=""; if grep -q -- "-race" $demo; then race="-race"; export CGO_ENABLED=1; fi
dname=zz_demo_test.go; if grep -q "aa_demo_test.go" $demo; then dname=aa_demo_test.go; fi
run=$(grep -o -m1 'TestDemo[A-Za-z0-9_]*' $demo | head -1)
cd $WT && git checkout -q -- . && git apply $patch || { echo "SEED $P-$I patch does not apply"; exit 1; }
build=$(go build ./... 2>&1 | tail -1)
tests=$(go test -vet=off -count=1 ./... 2>&1 | grep -c "^ok")
fails=$(go test -vet=off -count=1 ./... 2>&1 | grep -c "^FAIL\|^---")
cp $demo $pkg/$dname
go test $race -vet=off -count=1 -run "$run" ./$pkg > /tmp/seed_with.log 2>&1; with=$?
git checkout -q -- . ; cp $demo $pkg/$dname
go test $race -vet=off -count=1 -run "$run" ./$pkg > /tmp/seed_without.log 2>&1; without=$?
rm -f $pkg/$dname
echo "SEED $P-$I build='$build' suite_ok_pkgs=$tests suite_fail_lines=$fails demo_with_patch_exit=$with demo_without_patch_exit=$without"
cp $patch $OUT/patch.diff; cp $demo $OUT/demo_test.go.txt; cp $WT/seed_${I}_notes.txt $OUT/notes.txt 2>/dev/null
results=""
for C in $CHECKS; do
  # the checks run against the scratch worktree with the change applied (symgo -repo), so /repo itself stays untouched
  git -C $WT checkout -q -- . && git -C $WT apply $patch || { echo "cannot apply"; exit 1; }
  cd /verif && timeout 3000 ./bin/symgo check -repo $WT -prop $C -no-evidence -stop-on-violation > /tmp/seed_check_$P-${I}_$C.log 2>&1; code=$?
  git -C $WT checkout -q -- .
  nviol=$(grep -c "^VIOLATION" /tmp/seed_check_$P-${I}_$C.log)
  first=$(grep -m1 "^VIOLATION\|^INCONCLUSIVE\|^ENCODING\|^VACUOUS" /tmp/seed_check_$P-${I}_$C.log | cut -c1-200)
  echo "  check $C exit=$code violations=$nviol first='$first'"
  results="$results{\"check\":\"$C\",\"exit\":$code,\"violation_lines\":$nviol},"
done
python3 - <<PY
import json
meta={"property":"$P","seed":"$P-$I","source":"independent sub-agent given only the property text and a scratch worktree",
 "confirmed":{"compiles":"$build"=="" ,"existing_suite_ok_packages":$tests,"existing_suite_failures":$fails,"demo_fails_with_change":$with!=0,"demo_passes_without_change":$without==0},
 "checks_run":[${results%,}],
 "ran":"tools/seedtest.sh $P $I: git apply patch in the scratch worktree; go build ./... && go test -vet=off -count=1 ./... (existing suite); demonstration copied into the package and run with and without the change; then ./bin/symgo check -repo <worktree with the change> -prop <id> -no-evidence -stop-on-violation (the registered quick check, pointed at the changed tree); worktree reverted",
 "needs": open("$OUT/notes.txt").read() if __import__('os').path.exists("$OUT/notes.txt") else ""}
json.dump(meta,open("$OUT/meta.json","w"),indent=1)
PY
