#!/usr/bin/env python3
"""Writes /verif/seeded/SUMMARY.md from the meta.json files produced by tools/seedtest.sh."""
import json, glob, os
rows=[]
for d in sorted(glob.glob('/verif/seeded/*/')):
    m=os.path.join(d,'meta.json')
    if not os.path.exists(m): continue
    j=json.load(open(m))
    needs=j.get('needs','').strip().split('\n')[0][:260]
    checks='; '.join(f"{c['check']}: exit {c['exit']}, {c['violation_lines']} VIOLATION line(s)" for c in j['checks_run'])
    caught=any(c['exit']==1 for c in j['checks_run'])
    conf=j['confirmed']
    ok=conf['existing_suite_failures']==0 and conf['demo_fails_with_change'] and conf['demo_passes_without_change']
    rows.append((j['seed'],'yes' if ok else 'NO','caught' if caught else 'not caught',checks,j.get('history',''),needs))
out=['# Seeded changes','',
 'Each change was written by an independent sub-agent from the property text alone (scratch worktree, nothing from /verif),',
 'confirmed by `tools/seedtest.sh` (existing suite green with the change, demonstration fails with it and passes without it),',
 'and then the property\'s quick check was run against the changed tree (`symgo check -repo <scratch worktree> -stop-on-violation`).','',
 '| seed | confirmed | result | check run | history | what it needs to manifest (from the author\'s notes) |','|---|---|---|---|---|---|']
for r in rows:
    out.append('| '+' | '.join(x.replace('|','/') for x in r)+' |')
open('/verif/seeded/SUMMARY.md','w').write('\n'.join(out)+'\n')
print(len(rows),'seeds;',sum(1 for r in rows if r[2]=='caught'),'caught')
