#!/usr/bin/env python3
"""Regenerates /verif/MANIFEST.json from the table below (claimed checks) and properties.jsonl."""
import json, os
here = os.path.dirname(os.path.dirname(os.path.abspath(__file__)))
props = [json.loads(l) for l in open(os.path.join(here, 'properties.jsonl'))]

TECH = "bounded symbolic execution of the go/ssa form of /repo (own executor) + SMT (z3 4.8.12, z3 5.1.0, cvc5 bit-blast and cvc5 --solve-bv-as-int), counterexamples replayed natively"
NOTE = ("Trusted base: go/ssa construction (x/tools v0.29.0), the executor's instruction semantics, the standard-library contract "
        "stubs listed in evidence.coverage.stubs_used (regexp model built from the repo's pattern via regexp/syntax, fmt verbs, strconv, "
        "time as an axiomatised proleptic Gregorian calendar, bytes.Buffer/append aliasing), and the SMT solvers. Bounds are the runs "
        "listed in evidence.coverage.runs; nothing is claimed outside them.")

# id -> (design section, what the quick tier decides)
CLAIMED = {
 "C01": ("7/C01", "all dates of years 0000-9999 x {extended, basic}: formatter output is the canonical zero-padded text and every in-package input path (bytes, string, UnmarshalText) returns the same date; MarshalText/String/%s/%e/%b agree; 5-digit years (thorough: 6-9) under a symbolic MaxInputLength. encoding/json and encoding/xml plumbing is outside."),
 "C02": ("7/C02", "all n < 3000 and 65000..65999 (thorough: < 13000 and the thousands 32, 64, 100, 127) x all 128 flag sets: the numeral is the unique canonical one, parses back to n (bytes and string) and is Valid; MarshalText/String/%s under every DefaultFormat and the %R %r %L %l verbs for n < 2000."),
 "C03": ("7/C03", "every byte string up to length 8 (thorough 10) over all 256 byte values: accepted iff an independent BNF scanner accepts under the entry point's tag rule, numbers equal, formatting reproduces the input, reject => zero Ver and typed error; 19/20/21-digit components at each position against 2^64-1; Valid() <=> round trip for pre-release/build strings up to 4+2 bytes (thorough 5+2), also judged against the grammar itself."),
 "C04": ("7/C04", "all 2^64 sizes x the 8 combinations of the three Disable* switches: MarshalText->UnmarshalText, MarshalJSON->UnmarshalJSON (object, string and number forms through a token-level model of encoding/json), String, PrettyString and BytesString -> DefaultParser return the same size without error. Nesting in encoding/json containers (struct fields, slices, maps) is outside: reflection-driven standard-library code that hands MarshalJSON's bytes through."),
 "C05": ("7/C05", "all 256^36 and 256^45 inputs x 4 rule sets against an independent predicate, every other length 0..64 rejected, all 2^128 IDs: exact 8-4-4-4-12 layout, round trip in lower/upper case with/without URN, Version/Variant bit fields."),
 "C06": ("7/C06", "all pairs of valid pre-release strings up to 3+3 bytes (thorough 4+4) over every ASCII byte, numeric identifiers of 19-22 digits, outside the documented a01/a1 departure: DefaultComparePreRelease, Ver.Compare and Ver.Latest equal an identifier-wise section-11 oracle for arbitrary cores and build metadata; cores with full-range uint64 components; the specification's own example chain through CompareVersion/Compare."),
 "C07": ("7/C07", "all pairs of dates in years 0000-9999 (thorough: +-999,999,999): exactly one of Before/Equal/After and it matches chronological order; calendar lemmas (two independent ordinal closed forms agree, order key = ordinal order, successor = +1); Sub = days x 24h for all pairs within +-106751 days; Time()/FromTime()/Scan/Value glue incl. fixed zones -12h..+14h; Add(yy,mm,dd) with |yy|<=100, |mm|<=1200, |dd|<=40000 lands on the real day of the time.AddDate-normalised sum; AddDuration(k*24h+eps), |k|<=36500, lands exactly k days later; DaysBetween = ordinal difference for all pairs within +-106751 days and, together with Sub, against four concrete anchor dates (0001-01-01, 0000-03-01, 2000-02-29, 9999-12-31) in both directions; the float64 quotient in DaysBetween is cut out as a solver-discharged lemma (DESIGN.md 2.4)."),
 "C08": ("7/C08", "New[N] for all 12 numeric kinds over their full value range (all float32/float64 bit patterns incl. NaN/Inf) x 22 unit strings + arbitrary unit strings up to 3 bytes; text: every byte string up to length 5 (thorough 6) against the documented grammar, digit templates of 1-3, 18 and 20 digits (thorough: 4-6, 10, 19-21) with every separator kind; Bytes[N] for all 2^64 sizes x 12 kinds."),
 "C09": ("7/C09", "every byte string of length 0..10 (thorough: to 15 with symbolic MaxInputLength) x rule: accepted iff it names a real calendar day in the documented layouts, components as written, typed error and zero value otherwise."),
 "C10": ("7/C10", "every byte string of length 0..8 (thorough 11): accepted iff an independent split-enumerating evaluator accepts, same value, Valid <=> parse, case invariance under arbitrary letter-case flips (length <= 6, thorough 8)."),
 "C11": ("7/C11", "all valid dates with |year| <= 999,999,999: 7-byte layout and round trip; every byte string of each length 0..16: documented errors, receiver untouched on error, accepted => real calendar date with the written components, real dates accepted."),
 "C12": ("7/C12", "token level: every object of up to 2 members (thorough 3) drawn from 8 member kinds (value/unit in different key cases, unknown scalar and nested members, wrong-typed members), all 16 rule subsets, MaxObjectKeys 0..5, symbolic value digits and unit bytes, case-variant duplicate keys next to the other member in all six orders, against an order-independent oracle incl. the documented sentinel when exactly one rejection class applies; byte level (JSON token model): number/string/object/array templates x 7 kinds of trailing data x rules, and every truncation of three documents."),
 "C13": ("7/C13", "all 2^64 sizes: Shorten is exact, binary-unit, maximal; DefaultFormatter/String/PrettyString/PrettyHTML output equals digits grouped in threes + separator + unit for the 4 flag values."),
 "C14": ("7/C14", "all pairs of versions with valid pre-releases up to 3+3 bytes (thorough 4+4), full-range cores, arbitrary build strings: result in {-1,0,1}, antisymmetry, reflexivity, build ignored, equal => 0, Latest returns an argument and never the lower; Next* panic iff component = 2^64-1 (through recover) and otherwise a plain release strictly above (pre-release and build each absent or present); Latest of two versions that compare equal is one of the arguments with its own build; string helpers agree with value comparison and fail exactly on invalid text (all byte strings up to length 6, thorough 8)."),
 "C15": ("7/C15", "all triples of valid dates in years 0000-9999 and the four nil combinations: error iff from after to (with the sentinel), Contains iff inside the inclusive interval, bounds kept after the caller's variables change."),
 "C16": ("7/C16", "the five DefaultFormatters: symbolic prefix bytes (all 256 values) of length 0..3 (thorough 8; uu also 9 and 13) with spare capacity 0, 1, exact-fit, 64: prefix kept, suffix equals the nil-buffer output, caller's backing array untouched."),
 "C17": ("7/C17", "symbolic receiver pre-state (any field values, which subsumes values decoded by earlier calls) and every byte string up to the per-type bound (uu 30..46, date 0..11, roman 0..7, sem 0..7, size text 0..5, date binary 0..9, Scan over five dynamic types): failed UnmarshalText/UnmarshalBinary/Scan leave the receiver bit-identical, UnmarshalText agrees with the parser under its rule, a successful one stores exactly the parser's value over whatever the receiver held, a refusal wraps the parser's error (Unwrap, same sentinels), input bytes unchanged, string and []byte instantiations agree on value and on the fields the error message is built from, parsed values do not alias the input buffer."),
 "C18": ("7/C18", "no panic (every runtime-panic site and explicit panic is a verification condition) for every byte string up to the per-package bound incl. non-ASCII and invalid UTF-8, under a fully symbolic rule word and MaxInputLength >= 0, through every text entry point of date, roman, sem, size (text rules) and uu, the comparator and Ver.Valid on arbitrary field strings up to 3+3 bytes (thorough 4+4); limit contract with symbolic MaxInputLength at lengths 1..n, default-1, default, default+1 and 10x default (long inputs with concrete valid filler). size with JSON rules is covered on templates only (C12); memory consumption is not modelled."),
 "C19": ("7/C19", "all 2^126 pairs of 63-bit draws: version 4 / variant 1; each single one of the 122 free bits can be 0 and can be 1 (a required witness per bit: unsat is a violation); the ID is a GF(2)-affine map of the 126 draw bits with full rank on the 122 free positions, so every combination of the free bits occurs, each for exactly 16 draws (thorough also: adjacent pairs take all four values); lock discipline: the recorded lock/unlock/generator-use/package-variable events of RandomID, two threads, every interleaving: no two conflicting accesses unordered by happens-before (a racy schedule is confirmed with go test -race before it is reported). Uniqueness structurally: a feasible path drawing the ID from a generator created during the call and seeded only by the clock is a violation (confirmed by a native duplicate hunt)."),
 "C20": ("7/C20", "the six helpers (Marshal/Unmarshal x Text/Binary/JSON) on scripted marshaler/unmarshaler types (value and pointer receivers): one case with every combination of behaviour (right data, other data, error, error with data, panic, nil result for an expected empty text) x error predicate (none, AnyError, Error(matching), Error(other), ErrorHasPrefix, ErrorHasSuffix, ErrorMatch matching / valid non-matching / invalid pattern) x constraint (none, OnlyMarshal, OnlyUnmarshal) x before/after hooks (nil, pass, fail, panic), symbolic data bytes: a failure is recorded iff an independent per-case oracle says the case is not satisfied, no panic escapes; a type lacking the interface gives one failure and FailNow; in three-case lists through all six helpers, with every combination of direction constraints on the first two cases (a list may start with a case of the other direction), every failing applicable case is reported exactly once, other-direction cases are ignored, and a missing interface is still reported; pointer type parameters (T = *X) through the three unmarshal helpers with and without a TypeHelper. testify's assertions are contract stubs (documented result; Errorf exactly on false). One recorded finding (known_findings.json): a valid non-matching ErrorMatch pattern is not reported; pinned by the repo's own Test_ErrorMatch_Fail, so not repaired."),
}
NA_REASON = "check not built yet (framework under construction; see DESIGN.md section 10)"

checks = []
for p in props:
    pid = p["id"]
    if pid not in CLAIMED:
        continue
    sec, text = CLAIMED[pid]
    checks.append({
        "property_id": pid,
        "quick_cmd": f"./check {pid} quick",
        "thorough_cmd": f"./check {pid} thorough",
        "evidence_file": f"/verif/evidence/{pid}.json",
        "replay_cmd_template": f"./check {pid} --replay {{path}}",
        "engine": "symgo",
        "level_claimed": {"category": "model_checking", "text": "Bounded symbolic model checking of the implementation itself: " + text + " Every verdict is an SMT solver's answer over all values inside the bound; a sat answer is replayed against the native build before it is reported.", "design_ref": sec},
        "level_note": NOTE,
        "technique": TECH,
    })
m = {
 "version": 1,
 "setup_cmd": "cd /verif/symgo && GOFLAGS=-mod=mod GOPROXY=off GOSUMDB=off GOTOOLCHAIN=local go build -o ../bin/symgo ./cmd/symgo",
 "hooks": {"guard": "verif", "enable": "none needed: harnesses are injected into the packages through go/packages overlays (symbolic run) and go test -overlay (native replay); nothing is written into /repo", "baseline_off_cmd": "cd /repo && go test -vet=off -count=1 ./...", "source_commits": [], "add_only": True},
 "engines": [{"name": "symgo", "path": "/verif/symgo", "serves_properties": sorted(CLAIMED), "kind_free_text": "symbolic executor for go/ssa (state merging at post-dominators, shape-concrete/value-symbolic) emitting SMT-LIB2 QF_BV/FP; portfolio of z3, z3-new, cvc5, cvc5 --solve-bv-as-int=sum; native replay through go test -overlay"}],
 "checks": checks,
 "notes": "see DESIGN.md; known_findings.json lists the genuine defects found (all repaired so far by fix: commits in /repo)",
 "not_applicable": [{"property_id": p["id"], "reason": NA_REASON} for p in props if p["id"] not in CLAIMED],
}
json.dump(m, open(os.path.join(here, 'MANIFEST.json'), 'w'), indent=1)
print("claimed:", sorted(CLAIMED))
