package main

import (
	"fmt"

	"symgo/ssaexec"
	"symgo/term"
)

// raceQuery encodes two threads that each perform the recorded event sequence once, with arbitrary interleaving
// subject to mutex exclusion, and asks for a schedule in which two accesses to the same object from different
// threads are not ordered by happens-before (program order plus unlock->lock edges). unsat = race-free within
// the bound (2 threads x 1 call each).
func raceQuery(events []ssaexec.Event) (*term.Term, []*term.Term, string) {
	k := len(events)
	const w = 8
	ts := [2][]*term.Term{}
	var all []*term.Term
	for th := 0; th < 2; th++ {
		for i := 0; i < k; i++ {
			v := term.Var(fmt.Sprintf("t%c_%d", 'A'+th, i), term.BV(w))
			ts[th] = append(ts[th], v)
			all = append(all, v)
		}
	}
	var cs []*term.Term
	for th := 0; th < 2; th++ {
		for i := 0; i+1 < k; i++ {
			cs = append(cs, term.Ult(ts[th][i], ts[th][i+1]))
		}
	}
	for i := 0; i < k; i++ {
		for j := 0; j < k; j++ {
			cs = append(cs, term.Ne(ts[0][i], ts[1][j]))
		}
	}
	// critical sections per mutex: lock index -> matching unlock index (or -1)
	type section struct {
		obj        string
		lock, unlk int
	}
	var secs []section
	open := map[string][]int{}
	for i, e := range events {
		switch e.Kind {
		case "lock":
			open[e.Obj] = append(open[e.Obj], i)
		case "unlock":
			st := open[e.Obj]
			if len(st) > 0 {
				secs = append(secs, section{e.Obj, st[len(st)-1], i})
				open[e.Obj] = st[:len(st)-1]
			}
		}
	}
	for obj, st := range open {
		for _, l := range st {
			secs = append(secs, section{obj, l, -1})
		}
	}
	for _, sa := range secs {
		for _, sb := range secs {
			if sa.obj != sb.obj {
				continue
			}
			var alts []*term.Term
			if sa.unlk >= 0 {
				alts = append(alts, term.Ult(ts[0][sa.unlk], ts[1][sb.lock]))
			}
			if sb.unlk >= 0 {
				alts = append(alts, term.Ult(ts[1][sb.unlk], ts[0][sa.lock]))
			}
			cs = append(cs, term.Or(alts...))
		}
	}
	hb := func(from, to, p, q int) *term.Term {
		// an unlock at or after p in thread `from`, and a lock of the same mutex at or before q in thread `to`
		var alts []*term.Term
		for u := p; u < k; u++ {
			if events[u].Kind != "unlock" {
				continue
			}
			for l := 0; l <= q; l++ {
				if events[l].Kind == "lock" && events[l].Obj == events[u].Obj {
					alts = append(alts, term.Ult(ts[from][u], ts[to][l]))
				}
			}
		}
		return term.Or(alts...)
	}
	var races []*term.Term
	desc := ""
	isAcc := func(k string) bool { return k == "access" || k == "read" || k == "write" }
	for p, ea := range events {
		if !isAcc(ea.Kind) {
			continue
		}
		for q, eb := range events {
			if !isAcc(eb.Kind) || eb.Obj != ea.Obj {
				continue
			}
			// two reads never conflict ("access" = use of the generator, which mutates it)
			if ea.Kind == "read" && eb.Kind == "read" {
				continue
			}
			races = append(races, term.And(term.Not(hb(0, 1, p, q)), term.Not(hb(1, 0, q, p))))
		}
	}
	for _, e := range events {
		desc += e.Kind + "(" + e.Obj + ")@" + e.Site + " "
	}
	return term.And(term.And(cs...), term.Or(races...)), all, desc
}
