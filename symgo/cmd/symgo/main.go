// symgo: bounded symbolic checking of bafko/util properties on the go/ssa form of /repo's working tree.
package main

import (
	"encoding/json"
	"flag"
	"fmt"
	"go/ast"
	"go/parser"
	"go/token"
	"os"
	"os/exec"
	"path/filepath"
	"regexp"
	"runtime"
	"runtime/debug"
	"runtime/pprof"
	"sort"
	"strconv"
	"strings"
	"time"

	"golang.org/x/tools/go/ssa"

	"symgo/solver"
	"symgo/ssaexec"
	"symgo/term"
)

const module = "go.lstv.dev/util"

type paramRange struct {
	Name   string
	Lo, Hi int
}

type harnessSpec struct {
	Prop   string
	Tier   string
	Pkg    string // directory under harness/
	Func   string
	Params []paramRange
	Note   string
}

type runSpec struct {
	H    *harnessSpec
	Args []int
}

func (r runSpec) String() string {
	if len(r.Args) == 0 {
		return r.H.Pkg + "." + r.H.Func
	}
	parts := make([]string, len(r.Args))
	for i, a := range r.Args {
		parts[i] = fmt.Sprintf("%s=%d", r.H.Params[i].Name, a)
	}
	return r.H.Pkg + "." + r.H.Func + "(" + strings.Join(parts, ",") + ")"
}

var directiveRe = regexp.MustCompile(`^//verif:harness\s+(\S+)\s+(quick|thorough)(.*)$`)

func discover(harnessDir string) ([]*harnessSpec, error) {
	var out []*harnessSpec
	dirs, err := os.ReadDir(harnessDir)
	if err != nil {
		return nil, err
	}
	for _, d := range dirs {
		if !d.IsDir() || strings.HasPrefix(d.Name(), "_") {
			continue
		}
		files, _ := filepath.Glob(filepath.Join(harnessDir, d.Name(), "*.go"))
		for _, f := range files {
			fset := token.NewFileSet()
			af, err := parser.ParseFile(fset, f, nil, parser.ParseComments)
			if err != nil {
				return nil, err
			}
			for _, decl := range af.Decls {
				fd, ok := decl.(*ast.FuncDecl)
				if !ok || fd.Doc == nil {
					continue
				}
				for _, c := range fd.Doc.List {
					m := directiveRe.FindStringSubmatch(c.Text)
					if m == nil {
						continue
					}
					h := &harnessSpec{Prop: m[1], Tier: m[2], Pkg: d.Name(), Func: fd.Name.Name}
					for _, tok := range strings.Fields(m[3]) {
						kv := strings.SplitN(tok, "=", 2)
						if len(kv) != 2 {
							continue
						}
						lohi := strings.SplitN(kv[1], "..", 2)
						lo, _ := strconv.Atoi(lohi[0])
						hi := lo
						if len(lohi) == 2 {
							hi, _ = strconv.Atoi(lohi[1])
						}
						h.Params = append(h.Params, paramRange{kv[0], lo, hi})
					}
					out = append(out, h)
				}
			}
		}
	}
	return out, nil
}

func expand(h *harnessSpec) []runSpec {
	runs := []runSpec{{H: h}}
	for _, p := range h.Params {
		var next []runSpec
		for _, r := range runs {
			for v := p.Lo; v <= p.Hi; v++ {
				next = append(next, runSpec{H: h, Args: append(append([]int(nil), r.Args...), v)})
			}
		}
		runs = next
	}
	return runs
}

type knownEntry struct {
	Property string `json:"property"`
	Name     string `json:"name"`
	Status   string `json:"status"`
	Commit   string `json:"commit,omitempty"`
	What     string `json:"what"`
}

type vcResult struct {
	Run     string  `json:"run"`
	Label   string  `json:"label"`
	Kind    string  `json:"kind"`
	Verdict string  `json:"verdict"`
	Solver  string  `json:"solver"`
	Secs    float64 `json:"secs"`
	Note    string  `json:"note,omitempty"`
}

type checker struct {
	repo, verif string
	prop, tier  string
	known       []knownEntry
	ld          *ssaexec.Loaded
	ex          *ssaexec.Exec
	results     []vcResult
	violations  []string
	knownHits   map[string]bool
	replayed    map[string]bool
	reachState  map[string]string // harness function/label -> sat | unknown | unsat, over all runs of the function
	inconcl     []string
	mismatch    []string
	vacuous     []string
	samples     []interface{}
	replays     int
	states      int
	runsDone    []string
	t0          time.Time
	seed        int64
	fastCap     time.Duration
	slowCap     time.Duration
	bounds      []string
	execCap     time.Duration
	onlyArgs    string
	stopEarly   bool
}

func main() {
	if len(os.Args) < 2 {
		fmt.Fprintln(os.Stderr, "usage: symgo check|replay|list ...")
		os.Exit(2)
	}
	switch os.Args[1] {
	case "check":
		os.Exit(cmdCheck(os.Args[2:]))
	case "replay":
		os.Exit(cmdReplay(os.Args[2:]))
	case "list":
		hs, err := discover("/verif/harness")
		if err != nil {
			fmt.Println(err)
			os.Exit(2)
		}
		for _, h := range hs {
			fmt.Printf("%s %s %s.%s %v\n", h.Prop, h.Tier, h.Pkg, h.Func, h.Params)
		}
	default:
		fmt.Fprintln(os.Stderr, "unknown command", os.Args[1])
		os.Exit(2)
	}
}

func cmdCheck(args []string) int {
	fs := flag.NewFlagSet("check", flag.ExitOnError)
	prop := fs.String("prop", "", "property id")
	tier := fs.String("tier", "quick", "quick|thorough")
	repo := fs.String("repo", "/repo", "repository")
	verif := fs.String("verif", "/verif", "verification directory")
	only := fs.String("only", "", "run only harness functions matching this substring")
	trace := fs.Bool("trace", false, "trace")
	noEvidence := fs.Bool("no-evidence", false, "do not write the evidence file")
	dump := fs.String("dump", "", "directory to dump failing/unknown VC scripts")
	cpuprof := fs.String("cpuprofile", "", "write cpu profile")
	args1 := fs.String("args", "", "run only this argument tuple, e.g. 1,0")
	stopEarly := fs.Bool("stop-on-violation", false, "stop after the first run with a confirmed violation")
	fs.Parse(args)
	if t := os.Getenv("VERIF_TIER"); t != "" && *tier == "" {
		*tier = t
	}
	c := &checker{repo: *repo, verif: *verif, prop: *prop, tier: *tier, knownHits: map[string]bool{}, replayed: map[string]bool{}, reachState: map[string]string{}, t0: time.Now()}
	c.seed, _ = strconv.ParseInt(os.Getenv("VERIF_SEED"), 10, 64)
	c.fastCap, c.slowCap, c.execCap = 8*time.Second, 90*time.Second, 12*time.Minute
	if *tier == "thorough" {
		c.fastCap, c.slowCap, c.execCap = 20*time.Second, 600*time.Second, 30*time.Minute
	}
	debug.SetMemoryLimit(12 << 30)
	debug.SetGCPercent(400)
	go func() {
		// memory watchdog: never take the machine down
		for {
			time.Sleep(2 * time.Second)
			var ms runtime.MemStats
			runtime.ReadMemStats(&ms)
			if ms.HeapAlloc > 14<<30 {
				fmt.Printf("INCONCLUSIVE property=%s executor memory above 14 GiB; aborting\n", *prop)
				os.Exit(3)
			}
		}
	}()
	if *cpuprof != "" {
		f, _ := os.Create(*cpuprof)
		pprof.StartCPUProfile(f)
		defer pprof.StopCPUProfile()
	}
	c.onlyArgs = *args1
	c.stopEarly = *stopEarly
	code := c.run(*only, *trace, *dump)
	if !*noEvidence {
		c.writeEvidence(code)
	}
	return code
}

func (c *checker) loadKnown() {
	data, err := os.ReadFile(filepath.Join(c.verif, "known_findings.json"))
	if err != nil {
		return
	}
	var f struct {
		Findings []knownEntry `json:"findings"`
	}
	if json.Unmarshal(data, &f) == nil {
		c.known = f.Findings
	}
}

func (c *checker) activeKnown(name string) *knownEntry {
	for i := range c.known {
		k := &c.known[i]
		if k.Name == name && k.Status == "known" && k.Property == c.prop {
			return k
		}
	}
	return nil
}

func (c *checker) run(only string, trace bool, dump string) (code int) {
	defer func() {
		if r := recover(); r != nil {
			if a, ok := r.(*ssaexec.Abort); ok {
				fmt.Printf("INCONCLUSIVE property=%s %s %s\n", c.prop, a.Kind, a.Msg)
				c.inconcl = append(c.inconcl, a.Kind+" "+a.Msg)
				code = 3
				return
			}
			fmt.Printf("INCONCLUSIVE property=%s internal error: %v\n%s\n", c.prop, r, debug.Stack())
			c.inconcl = append(c.inconcl, fmt.Sprint(r))
			code = 3
		}
	}()
	c.loadKnown()
	hs, err := discover(filepath.Join(c.verif, "harness"))
	if err != nil {
		fmt.Println("INCONCLUSIVE harness discovery:", err)
		return 3
	}
	var runs []runSpec
	for _, h := range hs {
		if h.Prop != c.prop {
			continue
		}
		if h.Tier == "thorough" && c.tier != "thorough" {
			continue
		}
		if only != "" && !strings.Contains(h.Func, only) {
			continue
		}
		for _, r := range expand(h) {
			if c.onlyArgs != "" {
				parts := make([]string, len(r.Args))
				for i, a := range r.Args {
					parts[i] = strconv.Itoa(a)
				}
				if strings.Join(parts, ",") != c.onlyArgs {
					continue
				}
			}
			runs = append(runs, r)
		}
	}
	if len(runs) == 0 {
		fmt.Printf("INCONCLUSIVE property=%s no harness registered\n", c.prop)
		return 3
	}
	ov, err := ssaexec.OverlayFor(c.repo, filepath.Join(c.verif, "harness"), false)
	if err != nil {
		fmt.Println("INCONCLUSIVE overlay:", err)
		return 3
	}
	tl := time.Now()
	ld, err := ssaexec.Load(c.repo, module, ov, "./...")
	if err != nil {
		fmt.Printf("INCONCLUSIVE property=%s cannot load %s: %v\n", c.prop, c.repo, err)
		return 3
	}
	c.ld = ld
	fmt.Printf("loaded and built SSA in %.1fs\n", time.Since(tl).Seconds())
	ex := ssaexec.NewExec(ld.Prog, module)
	ex.Trace = trace
	ex.UseSolver = true
	ex.Inc = solver.NewProc("z3-new(inc)", "z3-new", "-in")
	defer ex.Inc.Close()
	c.ex = ex
	ex.InitModule(ld)

	pool := solver.NewPool(14, c.fastCap, c.slowCap)
	for _, r := range runs {
		if code := c.oneRun(r, pool, dump); code == 2 {
			return 2
		}
		if c.stopEarly && len(c.violations) > 0 {
			break
		}
	}
	// summary
	rkeys := make([]string, 0, len(c.reachState))
	for k := range c.reachState {
		rkeys = append(rkeys, k)
	}
	sort.Strings(rkeys)
	for _, k := range rkeys {
		switch c.reachState[k] {
		case "unsat":
			c.vacuous = append(c.vacuous, fmt.Sprintf("reach witness %s is unreachable in every state of every run", k))
		case "unknown":
			c.inconcl = append(c.inconcl, fmt.Sprintf("reach witness %s undecided", k))
		}
	}
	if len(c.mismatch) > 0 {
		for _, m := range c.mismatch {
			fmt.Printf("ENCODING-MISMATCH property=%s %s\n", c.prop, m)
		}
		return 2
	}
	names := make([]string, 0, len(c.knownHits))
	for n := range c.knownHits {
		names = append(names, n)
	}
	sort.Strings(names)
	for _, n := range names {
		k := c.activeKnown(n)
		fmt.Printf("KNOWN-FINDING: property=%s %s: %s\n", c.prop, n, k.What)
	}
	if len(c.violations) > 0 {
		for _, v := range c.violations {
			fmt.Println(v)
		}
		return 1
	}
	if len(c.vacuous) > 0 {
		for _, v := range c.vacuous {
			fmt.Printf("VACUOUS property=%s %s\n", c.prop, v)
		}
		return 3
	}
	if len(c.inconcl) > 0 {
		for _, v := range c.inconcl {
			fmt.Printf("INCONCLUSIVE property=%s %s\n", c.prop, v)
		}
		return 3
	}
	q, _, byRes, secs := solver.Global.Snapshot()
	fmt.Printf("OK property=%s tier=%s runs=%d vcs=%d solver-queries=%d (%v) solver-time=%.1fs wall=%.1fs\n",
		c.prop, c.tier, len(runs), len(c.results), q, byRes, secs, time.Since(c.t0).Seconds())
	return 0
}

func (c *checker) harnessFn(r runSpec) *ssa.Function {
	pkg := c.ld.Pkgs[module+"/"+r.H.Pkg]
	if pkg == nil {
		panic(&ssaexec.Abort{Kind: "UNSUPPORTED", Msg: "package " + r.H.Pkg + " not loaded"})
	}
	fn := pkg.Func(r.H.Func)
	if fn == nil {
		panic(&ssaexec.Abort{Kind: "UNSUPPORTED", Msg: "harness function " + r.H.Func + " not found"})
	}
	return fn
}

func (c *checker) oneRun(r runSpec, pool *solver.Pool, dump string) int {
	ex := c.ex
	ex.ResetRun()
	t0 := time.Now()
	ex.Deadline = t0.Add(c.execCap)
	if os.Getenv("SYMGO_PROGRESS") != "" {
		fmt.Printf("  start %s\n", r)
	}
	fn := c.harnessFn(r)
	args := make([]ssaexec.Value, len(r.Args))
	for i, a := range r.Args {
		args[i] = term.Const(64, uint64(a))
	}
	ex.RunHarnessArgs(fn, args)
	execSecs := time.Since(t0).Seconds()
	c.states += ex.RawOutcomes
	rawStates := ex.RawOutcomes
	ex.RawOutcomes = 0
	// build solver jobs
	type pending struct {
		vc   *ssaexec.VC
		job  *solver.Job
		excl *solver.Job
	}
	var activeKnown []*term.Term
	var activeNames []string
	for _, n := range ex.KnownOrder {
		if c.activeKnown(n) != nil {
			activeKnown = append(activeKnown, ex.Known[n])
			activeNames = append(activeNames, n)
		}
	}
	var jobs []*solver.Job
	var pend []*pending
	for _, vc := range ex.VCs {
		var q *term.Term
		switch vc.Kind {
		case "assert", "precond":
			q = term.And(vc.Guard, term.Not(vc.Cond))
		case "reach", "must":
			q = term.And(vc.Guard, vc.Cond)
		case "panic":
			q = vc.Guard
		}
		j := &solver.Job{Label: vc.Label, Asserts: ex.WithDefs(q), Want: ex.Inputs}
		if vc.Kind == "reach" {
			// a witness only has to be found somewhere: do not spend the full cap on a hard state
			j.SlowCap = 20 * time.Second
		}
		jobs = append(jobs, j)
		pend = append(pend, &pending{vc: vc, job: j})
	}
	var raceJob *solver.Job
	var raceDesc string
	var dupJobs []*solver.Job
	if r.H.Func == "H_C19_masks" {
		// "no duplicate within a run": every ID must come from the one shared generator stream. A generator that is
		// created during the call and seeded only from the clock hands two calls in the same clock tick the same
		// draws: the path to such a draw being feasible is the violation (confirmed natively by a duplicate hunt).
		created := map[string]bool{}
		for _, e := range ex.Events {
			if e.Kind == "newgen" {
				created[e.Obj] = true
			}
		}
		for _, e := range ex.Events {
			if e.Kind == "publish" {
				delete(created, e.Obj) // stored into a package variable: a shared generator created lazily, not a private one
			}
		}
		for _, e := range ex.Events {
			if e.Kind != "draw" || !created[e.Obj] {
				continue
			}
			clockOnly := e.Seed != nil
			if e.Seed != nil {
				for _, v := range term.Vars(e.Seed) {
					if !strings.HasPrefix(v.Name, "$now_") {
						clockOnly = false
					}
				}
			}
			if !clockOnly {
				c.inconcl = append(c.inconcl, fmt.Sprintf("RandomID draws from a generator created during the call (%s) whose seed is not modelled: uniqueness of IDs undecided", e.Site))
				continue
			}
			dupJobs = append(dupJobs, &solver.Job{Label: "private-clock-seeded-generator@" + e.Site, Asserts: ex.WithDefs(e.Guard), Want: ex.Inputs})
		}
		jobs = append(jobs, dupJobs...)
	}
	hasTry := false
	for _, e := range ex.Events {
		if e.Kind == "trylock" {
			hasTry = true
		}
	}
	if r.H.Func == "H_C19_masks" && hasTry {
		c.inconcl = append(c.inconcl, "RandomID uses Mutex.TryLock: its events fork, which the linear two-thread schedule encoding does not cover (lock discipline undecided)")
	}
	if r.H.Func == "H_C19_masks" && !hasTry {
		q, vars, desc := raceQuery(ex.Events)
		raceDesc = desc
		raceJob = &solver.Job{Label: "lock-discipline", Asserts: []*term.Term{q}, Want: vars}
		jobs = append(jobs, raceJob)
		nacc := 0
		for _, e := range ex.Events {
			if e.Kind == "access" {
				nacc++
			}
			if e.Kind == "write" && strings.HasPrefix(e.Obj, "global:") {
				nacc++
			}
		}
		if nacc == 0 {
			c.vacuous = append(c.vacuous, "no access to the shared generator was recorded in RandomID")
		}
	}
	pool.Run(jobs)
	dupSeen := false
	for _, dj := range dupJobs {
		c.results = append(c.results, vcResult{Run: r.String(), Label: dj.Label, Kind: "assert", Verdict: dj.Out.Res.String(), Solver: dj.Out.Solver, Secs: dj.Out.Secs})
		switch dj.Out.Res {
		case solver.Sat:
			if !dupSeen {
				dupSeen = true
				c.duplicateViolation(dj.Label, dj.Out.Model)
			}
		case solver.Unknown:
			c.inconcl = append(c.inconcl, "reachability of "+dj.Label+" undecided: "+dj.Out.Note)
		}
	}
	if raceJob != nil {
		res := vcResult{Run: r.String(), Label: "lock-discipline(2 threads x 1 call, all interleavings)", Kind: "assert", Verdict: raceJob.Out.Res.String(), Solver: raceJob.Out.Solver, Secs: raceJob.Out.Secs, Note: "events: " + raceDesc}
		c.results = append(c.results, res)
		switch raceJob.Out.Res {
		case solver.Sat:
			c.raceViolation(r, raceJob.Out.Model, raceDesc)
		case solver.Unknown:
			c.inconcl = append(c.inconcl, "lock-discipline query undecided: "+raceJob.Out.Note)
		}
		c.samples = append(c.samples, map[string]interface{}{"run": r.String(), "lock_discipline_events": raceDesc, "verdict": raceJob.Out.Res.String()})
	}
	// second round: violations that may be known findings
	var jobs2 []*solver.Job
	for _, p := range pend {
		if p.vc.Kind == "reach" || p.vc.Kind == "must" || p.vc.Kind == "precond" || p.job.Out.Res != solver.Sat || len(activeKnown) == 0 {
			continue
		}
		q := p.job.Asserts[0]
		q = term.And(q, term.Not(term.Or(activeKnown...)))
		p.excl = &solver.Job{Label: p.vc.Label + "/excl-known", Asserts: ex.WithDefs(q), Want: ex.Inputs}
		jobs2 = append(jobs2, p.excl)
	}
	pool.Run(jobs2)
	nUnsat, nSat, nUnk := 0, 0, 0
	for _, p := range pend {
		if p.vc.Kind == "reach" {
			key := r.H.Pkg + "." + r.H.Func + "/" + p.vc.Label
			if c.reachState[key] == "" {
				c.reachState[key] = "unsat"
			}
			switch p.job.Out.Res {
			case solver.Sat:
				c.reachState[key] = "sat"
			case solver.Unknown:
				if c.reachState[key] != "sat" {
					c.reachState[key] = "unknown"
				}
			}
		}
	}
	// "must" witnesses: per run and label, some state has to reach it
	mustState := map[string]string{}
	var mustOrder []string
	var mustVC = map[string]*ssaexec.VC{}
	for _, p := range pend {
		if p.vc.Kind != "must" {
			continue
		}
		l := p.vc.Label
		if _, ok := mustState[l]; !ok {
			mustState[l] = "unsat"
			mustOrder = append(mustOrder, l)
			mustVC[l] = p.vc
		}
		switch p.job.Out.Res {
		case solver.Sat:
			mustState[l] = "sat"
		case solver.Unknown:
			if mustState[l] != "sat" {
				mustState[l] = "unknown"
			}
		}
	}
	for _, l := range mustOrder {
		switch mustState[l] {
		case "unknown":
			c.inconcl = append(c.inconcl, fmt.Sprintf("%s: required witness %q undecided", r, l))
		case "unsat":
			c.mustViolation(r, mustVC[l], ex.Inputs)
		}
	}
	for _, p := range pend {
		a := p.job.Out
		res := vcResult{Run: r.String(), Label: p.vc.Label, Kind: p.vc.Kind, Verdict: a.Res.String(), Solver: a.Solver, Secs: a.Secs, Note: a.Note}
		switch p.vc.Kind {
		case "must":
			switch a.Res {
			case solver.Sat:
				nSat++
			case solver.Unsat:
				nUnsat++
			default:
				nUnk++
			}
		case "reach":
			switch a.Res {
			case solver.Sat:
				nSat++
				if len(c.samples) < 6 {
					c.samples = append(c.samples, map[string]interface{}{"run": r.String(), "reach": p.vc.Label, "witness": modelSample(a.Model)})
				}
			case solver.Unsat:
				nUnsat++
			default:
				nUnk++
			}
		default:
			switch a.Res {
			case solver.Unsat:
				nUnsat++
			case solver.Unknown:
				nUnk++
				c.inconcl = append(c.inconcl, fmt.Sprintf("%s: vc %q undecided on every back end (%s)", r, p.vc.Label, a.Note))
				if dump != "" {
					os.MkdirAll(dump, 0o755)
					solver.DumpScript(filepath.Join(dump, sanitize(r.String()+"_"+p.vc.Label)+".smt2"), p.job.Asserts, p.job.Want)
				}
			case solver.Sat:
				nSat++
				if p.vc.Kind == "precond" {
					c.inconcl = append(c.inconcl, fmt.Sprintf("%s: %s at %s can be violated (%v): the stub's contract does not cover this input", r, p.vc.Label, p.vc.Site, modelSample(a.Model)))
					break
				}
				model := a.Model
				isKnown := false
				if p.excl != nil {
					switch p.excl.Out.Res {
					case solver.Unsat:
						isKnown = true
					case solver.Sat:
						model = p.excl.Out.Model
					default:
						c.inconcl = append(c.inconcl, fmt.Sprintf("%s: vc %q violated; exclusion of known findings undecided (%s)", r, p.vc.Label, p.excl.Out.Note))
						isKnown = true // report the known class, stay inconclusive about the rest
					}
				}
				if isKnown {
					res.Verdict = "sat(known-finding)"
					// attribute to the classes that the model satisfies
					for i, k := range activeKnown {
						if term.EvalBool(k, a.Model) {
							c.knownHits[activeNames[i]] = true
						}
					}
					if len(c.knownHits) == 0 && len(activeNames) > 0 {
						c.knownHits[activeNames[0]] = true
					}
				} else {
					res.Verdict = "sat(violation)"
					key := r.String() + "/" + p.vc.Label
					if !c.replayed[key] {
						// one native replay per run and label; further states violating the same label add nothing
						c.replayed[key] = c.handleViolation(r, p.vc, model, dump, p.job)
					}
				}
			}
		}
		c.results = append(c.results, res)
	}
	c.runsDone = append(c.runsDone, r.String())
	fmt.Printf("  run %-40s states=%d vcs=%d unsat=%d sat=%d unknown=%d feasq=%d(%.1fs,%d unk) forks=%d merges=%d nodes=%d exec=%.1fs total=%.1fs\n", r, rawStates, len(ex.VCs), nUnsat, nSat, nUnk, ex.FeasQ, ex.FeasSecs, ex.FeasUnknown, ex.Forks, ex.Merges, term.NumNodes(), execSecs, time.Since(t0).Seconds())
	ex.EndStates = 0
	return 0
}

func sanitize(s string) string {
	return regexp.MustCompile(`[^A-Za-z0-9_.-]+`).ReplaceAllString(s, "_")
}

func modelSample(m term.Model) map[string]string {
	out := map[string]string{}
	keys := make([]string, 0, len(m))
	for k := range m {
		keys = append(keys, k)
	}
	sort.Strings(keys)
	// compact byte arrays
	arrays := map[string][]byte{}
	for _, k := range keys {
		if i := strings.IndexByte(k, '['); i > 0 && strings.HasSuffix(k, "]") {
			idx, _ := strconv.Atoi(k[i+1 : len(k)-1])
			a := arrays[k[:i]]
			for len(a) <= idx {
				a = append(a, 0)
			}
			a[idx] = byte(m[k])
			arrays[k[:i]] = a
			continue
		}
		if strings.HasPrefix(k, "$") {
			continue
		}
		out[k] = fmt.Sprintf("%#x", m[k])
	}
	for k, a := range arrays {
		out[k] = fmt.Sprintf("%q", string(a))
	}
	return out
}

type replayFile struct {
	Property string            `json:"property"`
	Pkg      string            `json:"pkg"`
	Func     string            `json:"func"`
	Args     []int             `json:"args"`
	Label    string            `json:"label"`
	Kind     string            `json:"kind"`
	Site     string            `json:"site"`
	Vector   map[string]uint64 `json:"vector"`
	Readable map[string]string `json:"readable"`
}

func (c *checker) handleViolation(r runSpec, vc *ssaexec.VC, model term.Model, dump string, job *solver.Job) bool {
	vec := map[string]uint64{}
	for k, v := range model {
		if !strings.HasPrefix(k, "$") {
			vec[k] = v
		}
	}
	rf := &replayFile{Property: c.prop, Pkg: r.H.Pkg, Func: r.H.Func, Args: r.Args, Label: vc.Label, Kind: vc.Kind, Site: vc.Site, Vector: vec, Readable: modelSample(model)}
	dir := filepath.Join(c.verif, "replays", c.prop)
	os.MkdirAll(dir, 0o755)
	path := filepath.Join(dir, sanitize(r.String()+"_"+vc.Label)+".json")
	data, _ := json.MarshalIndent(rf, "", " ")
	os.WriteFile(path, data, 0o644)
	c.replays++
	ok, out := runReplay(c.repo, c.verif, rf)
	if ok {
		c.violations = append(c.violations, fmt.Sprintf("VIOLATION property=%s replay=%s", c.prop, path))
		fmt.Printf("  counterexample for %s/%s reproduced natively: %v\n", r, vc.Label, rf.Readable)
		return true
	} else {
		c.mismatch = append(c.mismatch, fmt.Sprintf("%s: model for %q did not reproduce natively (%v): %s", r, vc.Label, rf.Readable, lastLines(out, 6)))
		if dump != "" {
			os.MkdirAll(dump, 0o755)
			solver.DumpScript(filepath.Join(dump, sanitize(r.String()+"_"+vc.Label)+".smt2"), job.Asserts, job.Want)
		}
	}
	return false
}

// mustViolation: the solver showed that no input of the run reaches a witness the property requires (for example
// "this bit of a random ID can be 1"). There is no counterexample vector for a universal statement; the native
// confirmation runs the harness on 20000 pseudo-random input vectors and requires that none reaches the label.
func (c *checker) mustViolation(r runSpec, vc *ssaexec.VC, inputs []*term.Term) {
	vec := map[string]uint64{}
	for _, in := range inputs {
		if in.Op == term.OVar && !strings.HasPrefix(in.Name, "$") {
			vec[in.Name] = 0
		}
	}
	rf := &replayFile{Property: c.prop, Pkg: r.H.Pkg, Func: r.H.Func, Args: r.Args, Label: vc.Label, Kind: "must", Site: vc.Site, Vector: vec,
		Readable: map[string]string{"claim": "no input reaches this witness (solver: unsat); replay = 20000 pseudo-random input vectors, none may reach it"}}
	dir := filepath.Join(c.verif, "replays", c.prop)
	os.MkdirAll(dir, 0o755)
	path := filepath.Join(dir, sanitize(r.String()+"_"+vc.Label)+".json")
	data, _ := json.MarshalIndent(rf, "", " ")
	os.WriteFile(path, data, 0o644)
	c.replays++
	ok, out := runReplay(c.repo, c.verif, rf)
	if ok {
		c.violations = append(c.violations, fmt.Sprintf("VIOLATION property=%s replay=%s", c.prop, path))
		fmt.Printf("  required witness %s/%s is unreachable (solver) and was not reached natively in 20000 random vectors\n", r, vc.Label)
	} else {
		c.mismatch = append(c.mismatch, fmt.Sprintf("%s: witness %q unreachable for the solver but reached natively: %s", r, vc.Label, lastLines(out, 4)))
	}
}

// duplicateViolation: a feasible path draws the ID from a generator seeded by the clock inside the call. The
// native confirmation hunts for duplicate IDs among concurrent callers of the real build.
func (c *checker) duplicateViolation(label string, model term.Model) {
	dir := filepath.Join(c.verif, "replays", c.prop)
	os.MkdirAll(dir, 0o755)
	path := filepath.Join(dir, "duplicate-ids.json")
	data, _ := json.MarshalIndent(map[string]interface{}{"property": c.prop, "kind": "duplicates", "label": label, "path_witness": modelSample(model),
		"replay": "go test: 64 goroutines x 20000 calls of uu.RandomID, up to 12 rounds, any ID seen twice"}, "", " ")
	os.WriteFile(path, data, 0o644)
	c.replays++
	ok, out := runDuplicateReplay(c.repo)
	if ok {
		c.violations = append(c.violations, fmt.Sprintf("VIOLATION property=%s replay=%s", c.prop, path))
		fmt.Printf("  %s is reachable (solver) and concurrent callers of the real build produced a duplicate ID\n", label)
	} else {
		c.mismatch = append(c.mismatch, "a clock-seeded private generator is reachable in RandomID but the native duplicate hunt found none: "+lastLines(out, 4))
	}
}

func runDuplicateReplay(repo string) (bool, string) {
	tmp, err := os.MkdirTemp("", "symgo-dup-")
	if err != nil {
		return false, err.Error()
	}
	defer os.RemoveAll(tmp)
	test := `package uu

import (
	"sync"
	"testing"
)

func TestVerifDuplicates(t *testing.T) {
	for round := 0; round < 12; round++ {
		const G, N = 64, 20000
		out := make([][]ID, G)
		var wg sync.WaitGroup
		for g := 0; g < G; g++ {
			wg.Add(1)
			go func(g int) {
				defer wg.Done()
				ids := make([]ID, N)
				for i := range ids {
					ids[i] = RandomID()
				}
				out[g] = ids
			}(g)
		}
		wg.Wait()
		seen := make(map[ID]struct{}, G*N)
		for _, ids := range out {
			for _, id := range ids {
				if _, dup := seen[id]; dup {
					t.Fatalf("DUPLICATE-ID %v in round %d", id, round)
				}
				seen[id] = struct{}{}
			}
		}
	}
}
`
	f := filepath.Join(tmp, "dup_test.go")
	os.WriteFile(f, []byte(test), 0o644)
	oj, _ := json.Marshal(map[string]interface{}{"Replace": map[string]string{filepath.Join(repo, "uu", "zz_verif_dup_test.go"): f}})
	ovPath := filepath.Join(tmp, "overlay.json")
	os.WriteFile(ovPath, oj, 0o644)
	cmd := exec.Command("go", "test", "-vet=off", "-count=1", "-run", "^TestVerifDuplicates$", "-overlay", ovPath, "./uu")
	cmd.Dir = repo
	cmd.Env = append(os.Environ(), "GOFLAGS=-mod=mod", "GOPROXY=off", "GOSUMDB=off", "GOTOOLCHAIN=local")
	outB, _ := cmd.CombinedOutput()
	out := string(outB)
	return strings.Contains(out, "DUPLICATE-ID"), out
}

// raceViolation confirms a solver-found racy schedule with the race detector on the real build.
func (c *checker) raceViolation(r runSpec, model term.Model, desc string) {
	dir := filepath.Join(c.verif, "replays", c.prop)
	os.MkdirAll(dir, 0o755)
	path := filepath.Join(dir, "lock-discipline.json")
	sched := map[string]uint64{}
	for k, v := range model {
		sched[k] = v
	}
	data, _ := json.MarshalIndent(map[string]interface{}{"property": c.prop, "kind": "race", "events": desc, "schedule_timestamps": sched,
		"replay": "go test -race: 8 goroutines x 20000 calls of uu.RandomID"}, "", " ")
	os.WriteFile(path, data, 0o644)
	c.replays++
	ok, out := runRaceReplay(c.repo)
	if ok {
		c.violations = append(c.violations, fmt.Sprintf("VIOLATION property=%s replay=%s", c.prop, path))
		fmt.Printf("  racy schedule found by the solver and confirmed by the race detector (%s)\n", desc)
	} else {
		c.mismatch = append(c.mismatch, "solver found a racy schedule for RandomID but the race detector did not confirm it: "+lastLines(out, 4))
	}
}

func runRaceReplay(repo string) (bool, string) {
	tmp, err := os.MkdirTemp("", "symgo-race-")
	if err != nil {
		return false, err.Error()
	}
	defer os.RemoveAll(tmp)
	test := `package uu

import (
	"sync"
	"testing"
)

func TestVerifRace(t *testing.T) {
	var wg sync.WaitGroup
	for g := 0; g < 8; g++ {
		wg.Add(1)
		go func() {
			defer wg.Done()
			for i := 0; i < 20000; i++ {
				_ = RandomID()
			}
		}()
	}
	wg.Wait()
}
`
	f := filepath.Join(tmp, "race_test.go")
	os.WriteFile(f, []byte(test), 0o644)
	oj, _ := json.Marshal(map[string]interface{}{"Replace": map[string]string{filepath.Join(repo, "uu", "zz_verif_race_test.go"): f}})
	ovPath := filepath.Join(tmp, "overlay.json")
	os.WriteFile(ovPath, oj, 0o644)
	cmd := exec.Command("go", "test", "-race", "-vet=off", "-count=1", "-run", "^TestVerifRace$", "-overlay", ovPath, "./uu")
	cmd.Dir = repo
	cmd.Env = append(os.Environ(), "GOFLAGS=-mod=mod", "GOPROXY=off", "GOSUMDB=off", "GOTOOLCHAIN=local", "CGO_ENABLED=1")
	outB, _ := cmd.CombinedOutput()
	out := string(outB)
	return strings.Contains(out, "DATA RACE"), out
}

func lastLines(s string, n int) string {
	ls := strings.Split(strings.TrimSpace(s), "\n")
	if len(ls) > n {
		ls = ls[len(ls)-n:]
	}
	return strings.Join(ls, " | ")
}

// runReplay builds the harness natively with the vector and reports whether the assertion fails there too.
func runReplay(repo, verif string, rf *replayFile) (bool, string) {
	tmp, err := os.MkdirTemp("", "symgo-replay-")
	if err != nil {
		return false, err.Error()
	}
	defer os.RemoveAll(tmp)
	ov, err := ssaexec.OverlayFor(repo, filepath.Join(verif, "harness"), true)
	if err != nil {
		return false, err.Error()
	}
	// the test file
	var sb strings.Builder
	pkgName := ""
	for p, data := range ov {
		if filepath.Dir(p) == filepath.Join(repo, rf.Pkg) && strings.HasSuffix(p, "zz_verif_prims.go") {
			for _, line := range strings.Split(string(data), "\n") {
				if strings.HasPrefix(line, "package ") {
					pkgName = strings.TrimSpace(strings.TrimPrefix(line, "package "))
				}
			}
		}
	}
	if rf.Kind == "must" {
		names := make([]string, 0, len(rf.Vector))
		for k := range rf.Vector {
			names = append(names, strconv.Quote(k))
		}
		sort.Strings(names)
		margs := make([]string, len(rf.Args))
		for i, a := range rf.Args {
			margs[i] = strconv.Itoa(a)
		}
		fmt.Fprintf(&sb, "package %s\n\nimport (\n\t\"fmt\"\n\t\"math/rand\"\n\t\"testing\"\n)\n\n", pkgName)
		fmt.Fprintf(&sb, "func TestVerifReplay(t *testing.T) {\n\trng := rand.New(rand.NewSource(1))\n\tnames := []string{%s}\n\treached := 0\n\tfor i := 0; i < 20000; i++ {\n\t\tvVec = map[string]uint64{}\n\t\tfor _, n := range names {\n\t\t\tvVec[n] = rng.Uint64()\n\t\t}\n\t\tvReached, vFailed, vAssumeFail = nil, nil, false\n\t\tfunc() {\n\t\t\tdefer func() { recover() }()\n\t\t\t%s(%s)\n\t\t}()\n\t\tfor _, l := range vReached {\n\t\t\tif l == %q {\n\t\t\t\treached++\n\t\t\t\tbreak\n\t\t\t}\n\t\t}\n\t}\n\tfmt.Printf(\"VREPLAY must=%%q reached=%%d of 20000\\n\", %q, reached)\n}\n", strings.Join(names, ", "), rf.Func, strings.Join(margs, ", "), rf.Label, rf.Label)
	} else {
		fmt.Fprintf(&sb, "package %s\n\nimport (\n\t\"fmt\"\n\t\"testing\"\n)\n\n", pkgName)
		fmt.Fprintf(&sb, "func TestVerifReplay(t *testing.T) {\n\tvVec = map[string]uint64{\n")
		keys := make([]string, 0, len(rf.Vector))
		for k := range rf.Vector {
			keys = append(keys, k)
		}
		sort.Strings(keys)
		for _, k := range keys {
			fmt.Fprintf(&sb, "\t\t%q: %#x,\n", k, rf.Vector[k])
		}
		args := make([]string, len(rf.Args))
		for i, a := range rf.Args {
			args[i] = strconv.Itoa(a)
		}
		fmt.Fprintf(&sb, "\t}\n\tdefer func() {\n\t\tr := recover()\n\t\tif _, ok := r.(vAssumeViolated); ok {\n\t\t\tr = nil\n\t\t}\n\t\tfmt.Printf(\"VREPLAY failed=%%q known=%%q assumeFail=%%v panic=%%v\\n\", vFailed, vKnownHit, vAssumeFail, r)\n\t}()\n\t%s(%s)\n}\n", rf.Func, strings.Join(args, ", "))
	}
	ov[filepath.Join(repo, rf.Pkg, "zz_verif_replay_test.go")] = []byte(sb.String())
	// materialise overlay
	repl := map[string]string{}
	i := 0
	for p, data := range ov {
		f := filepath.Join(tmp, fmt.Sprintf("f%d.go", i))
		i++
		os.WriteFile(f, data, 0o644)
		repl[p] = f
	}
	oj, _ := json.Marshal(map[string]interface{}{"Replace": repl})
	ovPath := filepath.Join(tmp, "overlay.json")
	os.WriteFile(ovPath, oj, 0o644)
	cmd := exec.Command("go", "test", "-vet=off", "-count=1", "-run", "^TestVerifReplay$", "-v", "-overlay", ovPath, "./"+rf.Pkg)
	cmd.Dir = repo
	cmd.Env = append(os.Environ(), "GOFLAGS=-mod=mod", "GOPROXY=off", "GOSUMDB=off", "GOTOOLCHAIN=local")
	outB, _ := cmd.CombinedOutput()
	out := string(outB)
	for _, line := range strings.Split(out, "\n") {
		if !strings.HasPrefix(line, "VREPLAY ") {
			continue
		}
		switch rf.Kind {
		case "must":
			return strings.Contains(line, "reached=0 of"), line
		case "panic":
			if strings.Contains(line, "assumeFail=true") {
				return false, line
			}
			return !strings.HasSuffix(strings.TrimSpace(line), "panic=<nil>"), line
		default:
			// an assertion that already failed stays failed even if a later assumption of the harness (about
			// inputs the formula did not mention) is not met by the model's default values
			if strings.Contains(line, strconv.Quote(rf.Label)) {
				return true, line
			}
			return false, line
		}
	}
	return false, out
}

func cmdReplay(args []string) int {
	fs := flag.NewFlagSet("replay", flag.ExitOnError)
	repo := fs.String("repo", "/repo", "repository")
	verif := fs.String("verif", "/verif", "verification directory")
	fs.Parse(args)
	if fs.NArg() != 1 {
		fmt.Println("usage: symgo replay <file.json>")
		return 2
	}
	data, err := os.ReadFile(fs.Arg(0))
	if err != nil {
		fmt.Println(err)
		return 2
	}
	var rf replayFile
	if err := json.Unmarshal(data, &rf); err != nil {
		fmt.Println(err)
		return 2
	}
	if rf.Kind == "duplicates" {
		ok, out := runDuplicateReplay(*repo)
		fmt.Println(lastLines(out, 12))
		if ok {
			fmt.Printf("VIOLATION property=%s replay=%s\n", rf.Property, fs.Arg(0))
			return 1
		}
		fmt.Println("not reproduced")
		return 0
	}
	if rf.Kind == "race" {
		ok, out := runRaceReplay(*repo)
		fmt.Println(lastLines(out, 12))
		if ok {
			fmt.Printf("VIOLATION property=%s replay=%s\n", rf.Property, fs.Arg(0))
			return 1
		}
		fmt.Println("not reproduced")
		return 0
	}
	ok, out := runReplay(*repo, *verif, &rf)
	fmt.Println(out)
	if ok {
		fmt.Printf("VIOLATION property=%s replay=%s\n", rf.Property, fs.Arg(0))
		return 1
	}
	fmt.Println("not reproduced")
	return 0
}

func (c *checker) writeEvidence(code int) {
	if c.prop == "" {
		return
	}
	q, bySolver, byRes, secs := solver.Global.Snapshot()
	var fns []string
	var transitions int64
	if c.ex != nil {
		fns = c.ex.SortedFnInstrs()
		transitions = c.ex.TotalSteps
	}
	stubs := []string{}
	if c.ex != nil {
		for k, v := range c.ex.StubsTotal {
			stubs = append(stubs, fmt.Sprintf("%s:%d", k, v))
		}
		sort.Strings(stubs)
	}
	verdicts := map[string]int{}
	for _, r := range c.results {
		verdicts[r.Kind+"/"+r.Verdict]++
	}
	samples := c.samples
	if len(samples) == 0 {
		for i, r := range c.results {
			if i >= 5 {
				break
			}
			samples = append(samples, r)
		}
	}
	if len(samples) == 0 {
		samples = append(samples, "no verification condition was produced")
	}
	states := c.states
	if states < 1 {
		states = 1
	}
	if transitions < 1 {
		transitions = 1
	}
	ev := map[string]interface{}{
		"property_id": c.prop,
		"tier":        c.tier,
		"seed":        c.seed,
		"level":       "model_checking",
		"wall_s":      time.Since(c.t0).Seconds(),
		"violations":  len(c.violations),
		"coverage": map[string]interface{}{
			"states":                        states,
			"transitions":                   transitions,
			"traces_validated_against_impl": c.replays,
			"samples":                       samples,
			"explanation":                   "bounded symbolic execution of the go/ssa form of /repo (rebuilt on this run); every verification condition is decided by an SMT solver over all values of the symbolic inputs within the bounds of the listed runs",
			"exit_code":                     code,
			"runs":                          c.runsDone,
			"functions_encoded":             fns,
			"stubs_used":                    stubs,
			"vcs":                           len(c.results),
			"vc_verdicts":                   verdicts,
			"solver_queries":                q,
			"solver_queries_by_backend":     bySolver,
			"solver_queries_by_result":      byRes,
			"solver_time_s":                 secs,
			"inconclusive":                  c.inconcl,
			"vacuous":                       c.vacuous,
			"encoding_mismatch":             c.mismatch,
			"known_findings_hit":            keysOf(c.knownHits),
			"vc_results":                    trimResults(c.results, 400),
		},
		"assumptions": []string{
			"standard-library and third-party calls are contract stubs (see DESIGN.md section 3); the claim is about bafko/util's own code given those contracts",
			"bounds are exactly the runs listed under coverage.runs (input lengths and parameter ranges are in the run names and harness directives); nothing is claimed outside them",
			"int is 64-bit; float-to-integer conversion of out-of-range values follows the amd64 code generated by go1.23",
		},
	}
	os.MkdirAll(filepath.Join(c.verif, "evidence"), 0o755)
	data, _ := json.MarshalIndent(ev, "", " ")
	os.WriteFile(filepath.Join(c.verif, "evidence", c.prop+".json"), data, 0o644)
}

func keysOf(m map[string]bool) []string {
	out := []string{}
	for k := range m {
		out = append(out, k)
	}
	sort.Strings(out)
	return out
}

func trimResults(rs []vcResult, n int) []vcResult {
	if len(rs) <= n {
		return rs
	}
	return rs[:n]
}
