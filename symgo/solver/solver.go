// Package solver drives z3, z3-new and cvc5 over SMT-LIB2 text: a persistent incremental process for
// the many small feasibility queries and a racing portfolio for verification conditions.
package solver

import (
	"bufio"
	"bytes"
	"context"
	"fmt"
	"io"
	"os"
	"os/exec"
	"strconv"
	"strings"
	"sync"
	"sync/atomic"
	"time"

	"symgo/term"
)

type Result int

const (
	Unknown Result = iota
	Sat
	Unsat
)

func (r Result) String() string { return [...]string{"unknown", "sat", "unsat"}[r] }

type Answer struct {
	Res    Result
	Model  term.Model
	Solver string
	Secs   float64
	Note   string
}

// Stats are global counters reported in evidence.
type Stats struct {
	Queries   int64
	BySolver  map[string]int64
	ByResult  map[string]int64
	SolverSec float64
	mu        sync.Mutex
}

var Global = &Stats{BySolver: map[string]int64{}, ByResult: map[string]int64{}}

func (s *Stats) add(a Answer) {
	s.mu.Lock()
	defer s.mu.Unlock()
	s.Queries++
	s.BySolver[a.Solver]++
	s.ByResult[a.Res.String()]++
	s.SolverSec += a.Secs
}

func (s *Stats) Snapshot() (q int64, bySolver, byResult map[string]int64, secs float64) {
	s.mu.Lock()
	defer s.mu.Unlock()
	bs, br := map[string]int64{}, map[string]int64{}
	for k, v := range s.BySolver {
		bs[k] = v
	}
	for k, v := range s.ByResult {
		br[k] = v
	}
	return s.Queries, bs, br, s.SolverSec
}

// ---------- persistent process ----------

type Proc struct {
	name string
	argv []string
	cmd  *exec.Cmd
	in   io.WriteCloser
	out  *bufio.Reader
	mu   sync.Mutex
}

func NewProc(name string, argv ...string) *Proc { return &Proc{name: name, argv: argv} }

func (p *Proc) start() error {
	cmd := exec.Command(p.argv[0], p.argv[1:]...)
	in, err := cmd.StdinPipe()
	if err != nil {
		return err
	}
	out, err := cmd.StdoutPipe()
	if err != nil {
		return err
	}
	cmd.Stderr = nil
	if err := cmd.Start(); err != nil {
		return err
	}
	p.cmd, p.in, p.out = cmd, in, bufio.NewReaderSize(out, 1<<20)
	return nil
}

func (p *Proc) Close() {
	p.mu.Lock()
	defer p.mu.Unlock()
	p.kill()
}

func (p *Proc) kill() {
	if p.cmd != nil {
		p.in.Close()
		p.cmd.Process.Kill()
		p.cmd.Wait()
		p.cmd = nil
	}
}

// readUntil reads lines until the marker line; returns the lines before it.
func (p *Proc) readUntil(marker string, deadline time.Duration) ([]string, error) {
	type res struct {
		lines []string
		err   error
	}
	ch := make(chan res, 1)
	go func() {
		var lines []string
		for {
			l, err := p.out.ReadString('\n')
			if err != nil {
				ch <- res{lines, err}
				return
			}
			l = strings.TrimSpace(l)
			if l == marker || l == "\""+marker+"\"" {
				ch <- res{lines, nil}
				return
			}
			if l != "" {
				lines = append(lines, l)
			}
		}
	}()
	select {
	case r := <-ch:
		return r.lines, r.err
	case <-time.After(deadline):
		p.kill()
		<-ch
		return nil, fmt.Errorf("timeout")
	}
}

var markerSeq int64

// Check asserts the conjunction of as and answers sat/unsat/unknown; when sat and want != nil it returns values.
func (p *Proc) Check(as []*term.Term, want []*term.Term, timeout time.Duration) Answer {
	p.mu.Lock()
	defer p.mu.Unlock()
	t0 := time.Now()
	ans := Answer{Solver: p.name}
	defer func() {
		ans.Secs = time.Since(t0).Seconds()
		Global.add(ans)
	}()
	if p.cmd == nil {
		if err := p.start(); err != nil {
			ans.Note = err.Error()
			return ans
		}
	}
	script, _ := term.Script(append(append([]*term.Term{}, as...), want...)...)
	var sb strings.Builder
	sb.WriteString("(push 1)\n")
	fmt.Fprintf(&sb, "(set-option :timeout %d)\n", timeout.Milliseconds())
	sb.WriteString(script)
	for _, a := range as {
		fmt.Fprintf(&sb, "(assert %s)\n", term.Ref(a))
	}
	mk := fmt.Sprintf("DONE%d", atomic.AddInt64(&markerSeq, 1))
	fmt.Fprintf(&sb, "(check-sat)\n(echo \"%s\")\n", mk)
	if _, err := io.WriteString(p.in, sb.String()); err != nil {
		p.kill()
		ans.Note = err.Error()
		return ans
	}
	lines, err := p.readUntil(mk, timeout+5*time.Second)
	if err != nil {
		ans.Note = err.Error()
		return ans
	}
	ans.Res, ans.Note = classify(lines)
	if ans.Res == Sat && len(want) > 0 {
		mk2 := fmt.Sprintf("DONE%d", atomic.AddInt64(&markerSeq, 1))
		var q strings.Builder
		q.WriteString("(get-value (")
		for _, w := range want {
			q.WriteString(term.Ref(w) + " ")
		}
		fmt.Fprintf(&q, "))\n(echo \"%s\")\n", mk2)
		io.WriteString(p.in, q.String())
		vl, err := p.readUntil(mk2, 20*time.Second)
		if err == nil {
			ans.Model = parseModel(strings.Join(vl, " "), want)
		}
	}
	if p.cmd != nil {
		io.WriteString(p.in, "(pop 1)\n")
	}
	return ans
}

func classify(lines []string) (Result, string) {
	res := Unknown
	note := ""
	for _, l := range lines {
		switch {
		case l == "sat":
			res = Sat
		case l == "unsat":
			res = Unsat
		case l == "unknown":
			res = Unknown
		case strings.HasPrefix(l, "(error"):
			return Unknown, l
		}
	}
	return res, note
}

// ---------- model parsing ----------

func tokenize(s string) []string {
	var toks []string
	i := 0
	for i < len(s) {
		c := s[i]
		switch {
		case c == ' ' || c == '\n' || c == '\t' || c == '\r':
			i++
		case c == '(' || c == ')':
			toks = append(toks, string(c))
			i++
		case c == '|':
			j := strings.IndexByte(s[i+1:], '|')
			toks = append(toks, s[i:i+j+2])
			i += j + 2
		default:
			j := i
			for j < len(s) && !strings.ContainsRune(" \n\t\r()", rune(s[j])) {
				j++
			}
			toks = append(toks, s[i:j])
			i = j
		}
	}
	return toks
}

func bvLit(tok string) (uint64, int, bool) {
	if strings.HasPrefix(tok, "#x") {
		v, err := strconv.ParseUint(tok[2:], 16, 64)
		if err != nil {
			// wider than 64: keep low 64 bits
			h := tok[2:]
			if len(h) > 16 {
				v, _ = strconv.ParseUint(h[len(h)-16:], 16, 64)
			}
		}
		return v, 4 * (len(tok) - 2), true
	}
	if strings.HasPrefix(tok, "#b") {
		b := tok[2:]
		if len(b) > 64 {
			b = b[len(b)-64:]
		}
		v, _ := strconv.ParseUint(b, 2, 64)
		return v, len(tok) - 2, true
	}
	return 0, 0, false
}

// parseModel reads "((ref val) (ref val) ...)" in the order of want.
func parseModel(s string, want []*term.Term) term.Model {
	toks := tokenize(s)
	m := term.Model{}
	pos := 0
	next := func() string {
		if pos < len(toks) {
			pos++
			return toks[pos-1]
		}
		return ""
	}
	if next() != "(" {
		return m
	}
	for _, w := range want {
		if next() != "(" {
			return m
		}
		// the reference: a single token or a parenthesised expr (not used)
		next()
		// the value
		tok := next()
		var val uint64
		switch {
		case tok == "true":
			val = 1
		case tok == "false":
			val = 0
		case tok == "(":
			// (fp s e m) | (_ bvN w) | (_ +zero e s) | (_ NaN e s) ...
			head := next()
			switch head {
			case "fp":
				s1, _, _ := bvLit(next())
				e, ew, _ := bvLit(next())
				mm, mw, _ := bvLit(next())
				val = s1<<uint(ew+mw) | e<<uint(mw) | mm
				next() // ")"
			case "_":
				k := next()
				a := next()
				b := ""
				if toks[pos] != ")" {
					b = next()
				}
				next() // ")"
				switch {
				case strings.HasPrefix(k, "bv"):
					val, _ = strconv.ParseUint(k[2:], 10, 64)
				case k == "NaN":
					if w.Sort.W == 32 {
						val = 0x7fc00000
					} else {
						val = 0x7ff8000000000000
					}
				case k == "+zero":
					val = 0
				case k == "-zero":
					val = 1 << uint(w.Sort.W-1)
				case k == "+oo":
					if w.Sort.W == 32 {
						val = 0x7f800000
					} else {
						val = 0x7ff0000000000000
					}
				case k == "-oo":
					if w.Sort.W == 32 {
						val = 0xff800000
					} else {
						val = 0xfff0000000000000
					}
				}
				_, _ = a, b
			default:
				// skip unknown form
				depth := 1
				for depth > 0 && pos < len(toks) {
					t := next()
					if t == "(" {
						depth++
					} else if t == ")" {
						depth--
					}
				}
			}
		default:
			if v, _, ok := bvLit(tok); ok {
				val = v
			}
		}
		if next() != ")" {
			return m
		}
		if w.Op == term.OVar {
			m[w.Name] = val
		} else {
			m[term.Ref(w)] = val
		}
	}
	return m
}

// ---------- one-shot runs and the portfolio ----------

type Backend struct {
	Name string
	Argv []string // script is passed on stdin
	FP   bool     // supports floating point
}

var (
	BZ3New  = Backend{"z3-new", []string{"z3-new", "-in"}, true}
	BZ3     = Backend{"z3", []string{"z3", "-in"}, true}
	BCvc5   = Backend{"cvc5", []string{"cvc5", "--lang=smt2", "--produce-models"}, true}
	BCvcInt = Backend{"cvc5-int", []string{"cvc5", "--lang=smt2", "--produce-models", "--solve-bv-as-int=sum"}, false}
)

func hasFP(ts []*term.Term) bool {
	seen := map[int]bool{}
	var walk func(t *term.Term) bool
	walk = func(t *term.Term) bool {
		if seen[t.ID] {
			return false
		}
		seen[t.ID] = true
		if t.Sort.K == term.KFP {
			return true
		}
		for _, a := range t.Args {
			if walk(a) {
				return true
			}
		}
		return false
	}
	for _, t := range ts {
		if walk(t) {
			return true
		}
	}
	return false
}

func buildScript(as []*term.Term, want []*term.Term) string {
	script, _ := term.Script(append(append([]*term.Term{}, as...), want...)...)
	var sb strings.Builder
	sb.WriteString("(set-option :produce-models true)\n(set-logic ALL)\n")
	sb.WriteString(script)
	for _, a := range as {
		fmt.Fprintf(&sb, "(assert %s)\n", term.Ref(a))
	}
	sb.WriteString("(check-sat)\n")
	if len(want) > 0 {
		sb.WriteString("(get-value (")
		for _, w := range want {
			sb.WriteString(term.Ref(w) + " ")
		}
		sb.WriteString("))\n")
	}
	return sb.String()
}

func runOnce(ctx context.Context, b Backend, script string, want []*term.Term) Answer {
	t0 := time.Now()
	cmd := exec.CommandContext(ctx, b.Argv[0], b.Argv[1:]...)
	cmd.Stdin = strings.NewReader(script)
	var out bytes.Buffer
	cmd.Stdout = &out
	cmd.Stderr = &out
	err := cmd.Run()
	ans := Answer{Solver: b.Name, Secs: time.Since(t0).Seconds()}
	text := out.String()
	lines := strings.Split(text, "\n")
	first := ""
	for _, l := range lines {
		l = strings.TrimSpace(l)
		if l != "" {
			first = l
			break
		}
	}
	switch first {
	case "unsat":
		// any error line => inconclusive (an unsat followed by get-value error is expected and harmless)
		ans.Res = Unsat
		for _, l := range lines {
			if strings.HasPrefix(strings.TrimSpace(l), "(error") && !strings.Contains(l, "model is not available") && !strings.Contains(l, "get-value") && !strings.Contains(l, "cannot get value") && !strings.Contains(l, "Cannot get") {
				ans.Res = Unknown
				ans.Note = l
			}
		}
	case "sat":
		ans.Res = Sat
		idx := strings.Index(text, "sat")
		rest := text[idx+3:]
		if strings.Contains(rest, "(error") {
			ans.Res = Unknown
			ans.Note = strings.TrimSpace(rest)
		} else if len(want) > 0 {
			ans.Model = parseModel(rest, want)
		}
	default:
		ans.Res = Unknown
		if err != nil {
			ans.Note = err.Error()
		}
		if first != "" && first != "unknown" {
			ans.Note += " " + first
		}
	}
	return ans
}

// Race runs the back ends in parallel on the same script; the first definitive answer wins.
func Race(as []*term.Term, want []*term.Term, cap time.Duration, backends []Backend) Answer {
	script := buildScript(as, want)
	fp := hasFP(append(append([]*term.Term{}, as...), want...))
	ctx, cancel := context.WithTimeout(context.Background(), cap)
	defer cancel()
	ch := make(chan Answer, len(backends))
	n := 0
	for _, b := range backends {
		if fp && !b.FP {
			continue
		}
		n++
		go func(b Backend) { ch <- runOnce(ctx, b, script, want) }(b)
	}
	var last Answer
	last.Solver = "portfolio"
	notes := []string{}
	for i := 0; i < n; i++ {
		a := <-ch
		Global.add(a)
		if a.Res != Unknown {
			cancel()
			// drain others in background
			go func(k int) {
				for j := 0; j < k; j++ {
					<-ch
				}
			}(n - i - 1)
			return a
		}
		if a.Note != "" {
			notes = append(notes, a.Solver+": "+a.Note)
		}
	}
	last.Note = strings.Join(notes, "; ")
	return last
}

// DumpScript writes the script of a query for debugging.
func DumpScript(path string, as []*term.Term, want []*term.Term) {
	os.WriteFile(path, []byte(buildScript(as, want)), 0o644)
}

// ---------- VC pool ----------

type Job struct {
	SlowCap time.Duration // optional per-job cap for the racing stage
	Label   string
	Asserts []*term.Term
	Want    []*term.Term
	Out     Answer
}

type Pool struct {
	Workers   int
	FastCap   time.Duration
	SlowCap   time.Duration
	raceSlots chan struct{}
}

func NewPool(workers int, fast, slow time.Duration) *Pool {
	rs := workers / 3
	if rs < 1 {
		rs = 1
	}
	return &Pool{Workers: workers, FastCap: fast, SlowCap: slow, raceSlots: make(chan struct{}, rs)}
}

// Run solves all jobs; each first on a persistent z3-new with the fast cap, then on the racing portfolio.
func (p *Pool) Run(jobs []*Job) {
	ch := make(chan *Job)
	var wg sync.WaitGroup
	for i := 0; i < p.Workers; i++ {
		wg.Add(1)
		go func() {
			defer wg.Done()
			proc := NewProc("z3-new", "z3-new", "-in")
			defer proc.Close()
			for j := range ch {
				j.Out = p.solveOne(proc, j)
			}
		}()
	}
	for _, j := range jobs {
		ch <- j
	}
	close(ch)
	wg.Wait()
}

func (p *Pool) solveOne(proc *Proc, j *Job) Answer {
	// trivial cases
	// workers must not create terms (the term table is not synchronised): only inspect
	for _, a := range j.Asserts {
		if a.IsFalse() {
			return Answer{Res: Unsat, Solver: "simplifier"}
		}
	}
	a := proc.Check(j.Asserts, j.Want, p.FastCap)
	if a.Res != Unknown {
		return a
	}
	p.raceSlots <- struct{}{}
	defer func() { <-p.raceSlots }()
	slow := p.SlowCap
	if j.SlowCap > 0 && j.SlowCap < slow {
		slow = j.SlowCap
	}
	r := Race(j.Asserts, j.Want, slow, []Backend{BCvcInt, BZ3New, BCvc5, BZ3})
	if r.Res == Unknown && a.Note != "" {
		r.Note = "z3-new(inc): " + a.Note + "; " + r.Note
	}
	return r
}
