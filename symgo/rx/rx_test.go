package rx

import (
	"regexp"
	"testing"
)

func equalCaps(a, b []int) bool {
	if len(a) != len(b) {
		return false
	}
	for i := range a {
		if a[i] != b[i] {
			return false
		}
	}
	return true
}

func sweep(t *testing.T, pat string, alphabet string, maxLen int) {
	m, err := Compile(pat)
	if err != nil {
		t.Fatal(err)
	}
	re := regexp.MustCompile(pat)
	buf := make([]byte, 0, maxLen)
	count := 0
	var rec func(l int)
	rec = func(l int) {
		got, err := m.MatchConcrete(buf, 200000)
		if err != nil {
			t.Fatal(err)
		}
		want := re.FindSubmatchIndex(buf)
		if !equalCaps(got, want) {
			t.Fatalf("%q on %q: model %v real %v", pat, buf, got, want)
		}
		count++
		if l == maxLen {
			return
		}
		for i := 0; i < len(alphabet); i++ {
			buf = append(buf, alphabet[i])
			rec(l + 1)
			buf = buf[:len(buf)-1]
		}
	}
	rec(0)
	t.Logf("%q: %d strings agree", pat, count)
}

func TestModel(t *testing.T) {
	sweep(t, `^([0-9]{4,9})-?(1[0-2]|0[0-9])-?(3[01]|[0-2][0-9])$`, "013-x", 10)
	sweep(t, `(?i)^(M*)(D?C{0,4}|CD|CM)(L?X{0,4}|XL|XC)(V?I{0,4}|IV|IX)$`, "MDCLXVIm\n", 6)
	sweep(t, `^(0|[1-9][0-9]*)\.(0|[1-9][0-9]*)(?:\-((?:[0-9A-Za-z\-]*[A-Za-z\-][0-9A-Za-z\-]*)|(?:0|[1-9][0-9]*)))?(?:\+([0-9A-Za-z\-]+))?$`, "01a-.+", 7)
	sweep(t, `(a|ab)(c|bcd)(d*)`, "abcd", 6)
	sweep(t, `^[0-9]*$`, "0a", 4)
	sweep(t, `a*?(a+)b?`, "ab", 6)
	sweep(t, `(?im)^(M*)(V?I{0,4}|IV|IX)$`, "MIV\nx", 6)
	sweep(t, `(?m)^a$|b$`, "ab\n", 5)
}
