// Package rx is a bounded model of Go's regexp matching: for a pattern (parsed by the real regexp/syntax) and
// an input of concrete length n with unknown bytes it enumerates, in leftmost-first priority order, every way the
// pattern can match, each with the byte classes it requires per position and the capture spans it produces.
package rx

import (
	"fmt"
	"sort"
	"regexp/syntax"
	"unicode"
)

type ByteSet [4]uint64

func (s *ByteSet) Add(b byte)     { s[b>>6] |= 1 << (b & 63) }
func (s ByteSet) Has(b byte) bool { return s[b>>6]&(1<<(b&63)) != 0 }
func (s ByteSet) Empty() bool     { return s[0]|s[1]|s[2]|s[3] == 0 }
func (s ByteSet) And(o ByteSet) ByteSet {
	return ByteSet{s[0] & o[0], s[1] & o[1], s[2] & o[2], s[3] & o[3]}
}

// Ranges lists the maximal [lo,hi] runs of the set.
func (s ByteSet) Ranges() [][2]byte {
	var out [][2]byte
	i := 0
	for i < 256 {
		if !s.Has(byte(i)) {
			i++
			continue
		}
		j := i
		for j+1 < 256 && s.Has(byte(j+1)) {
			j++
		}
		out = append(out, [2]byte{byte(i), byte(j)})
		i = j + 1
	}
	return out
}

type Req struct {
	Pos int
	Set ByteSet
}

type Path struct {
	Start, End int
	Caps       []int // 2*(NumCap+1) entries, -1 when unset; Caps[0],Caps[1] = whole match
	Reqs       []Req // one per consumed position, ascending
}

type Model struct {
	Re     *syntax.Regexp
	NumCap int
	Source string
	cache  map[int][]Path
}

func Compile(pattern string) (*Model, error) {
	re, err := syntax.Parse(pattern, syntax.Perl)
	if err != nil {
		return nil, err
	}
	n := re.MaxCap()
	re = re.Simplify()
	return &Model{Re: re, NumCap: n, Source: pattern}, nil
}

type ErrUnsupported struct{ What string }

func (e *ErrUnsupported) Error() string { return "regexp model: unsupported " + e.What }

type ErrBudget struct{ N int }

func (e *ErrBudget) Error() string { return fmt.Sprintf("regexp model: more than %d match paths", e.N) }

// reqNode is a persistent list of requirements (sharing prefixes between paths keeps long inputs linear).
type reqNode struct {
	r    Req
	prev *reqNode
	n    int
}

func (l *reqNode) push(r Req) *reqNode {
	n := 1
	if l != nil {
		n = l.n + 1
	}
	return &reqNode{r: r, prev: l, n: n}
}

func (l *reqNode) slice() []Req {
	if l == nil {
		return nil
	}
	out := make([]Req, l.n)
	for x := l; x != nil; x = x.prev {
		out[x.n-1] = x.r
	}
	return out
}

type st struct {
	caps []int
	reqs *reqNode
}

type enum struct {
	n       int
	budget  int
	out     []Path
	err     error
	allowed []ByteSet // optional: bytes each position can take at all (nil = anything)
}

func classSet(re *syntax.Regexp) (ByteSet, error) {
	var s ByteSet
	for i := 0; i+1 < len(re.Rune); i += 2 {
		lo, hi := re.Rune[i], re.Rune[i+1]
		if hi >= 0x80 {
			// non-ASCII members need multi-byte sequences; only complete tails (negated classes) are common
			if lo < 0x80 {
				for r := lo; r < 0x80; r++ {
					s.Add(byte(r))
				}
			}
			return s, &ErrUnsupported{fmt.Sprintf("character class with non-ASCII members %U-%U", lo, hi)}
		}
		for r := lo; r <= hi; r++ {
			s.Add(byte(r))
		}
	}
	return s, nil
}

func litSet(r rune, fold bool) (ByteSet, error) {
	var s ByteSet
	if r >= 0x80 {
		return s, &ErrUnsupported{fmt.Sprintf("non-ASCII literal %U", r)}
	}
	s.Add(byte(r))
	if fold {
		for f := unicode.SimpleFold(r); f != r; f = unicode.SimpleFold(f) {
			if f >= 0x80 {
				return s, &ErrUnsupported{fmt.Sprintf("case folding of %q reaches non-ASCII %U", r, f)}
			}
			s.Add(byte(f))
		}
	}
	return s, nil
}

func (e *enum) fail(err error) {
	if e.err == nil {
		e.err = err
	}
}

func (e *enum) consume(set ByteSet, pos int, s st, k func(int, st)) {
	if pos >= e.n || set.Empty() {
		return
	}
	if e.allowed != nil {
		set = set.And(e.allowed[pos])
		if set.Empty() {
			return
		}
	}
	ns := st{caps: s.caps, reqs: s.reqs.push(Req{pos, set})}
	k(pos+1, ns)
}

// look adds a requirement on a byte without consuming it.
func (e *enum) look(set ByteSet, pos int, s st, k func(st)) {
	if e.allowed != nil {
		set = set.And(e.allowed[pos])
	}
	if set.Empty() {
		return
	}
	k(st{caps: s.caps, reqs: s.reqs.push(Req{pos, set})})
}

// normalise sorts the requirements by position and intersects those on the same byte; ok=false when contradictory.
func normalise(reqs []Req) ([]Req, bool) {
	sorted := true
	for i := 1; i < len(reqs); i++ {
		if reqs[i].Pos <= reqs[i-1].Pos {
			sorted = false
			break
		}
	}
	if sorted {
		return reqs, true
	}
	out := append([]Req(nil), reqs...)
	sort.SliceStable(out, func(i, j int) bool { return out[i].Pos < out[j].Pos })
	w := 0
	for i := 0; i < len(out); i++ {
		if w > 0 && out[w-1].Pos == out[i].Pos {
			out[w-1].Set = out[w-1].Set.And(out[i].Set)
			if out[w-1].Set.Empty() {
				return nil, false
			}
			continue
		}
		out[w] = out[i]
		w++
	}
	return out[:w], true
}

func (e *enum) m(re *syntax.Regexp, pos int, s st, k func(int, st)) {
	if e.err != nil {
		return
	}
	switch re.Op {
	case syntax.OpNoMatch:
	case syntax.OpEmptyMatch:
		k(pos, s)
	case syntax.OpLiteral:
		fold := re.Flags&syntax.FoldCase != 0
		var step func(i, p int, s st)
		step = func(i, p int, s st) {
			if i == len(re.Rune) {
				k(p, s)
				return
			}
			set, err := litSet(re.Rune[i], fold)
			if err != nil {
				e.fail(err)
				return
			}
			e.consume(set, p, s, func(np int, ns st) { step(i+1, np, ns) })
		}
		step(0, pos, s)
	case syntax.OpCharClass:
		set, err := classSet(re)
		if err != nil {
			e.fail(err)
			return
		}
		e.consume(set, pos, s, k)
	case syntax.OpAnyCharNotNL, syntax.OpAnyChar:
		e.fail(&ErrUnsupported{"'.' (matches multi-byte runes)"})
	case syntax.OpBeginText:
		if pos == 0 {
			k(pos, s)
		}
	case syntax.OpEndText:
		if pos == e.n {
			k(pos, s)
		}
	case syntax.OpBeginLine:
		// (?m)^ : at the start of the text or right after a newline (a look-behind on an input byte)
		if pos == 0 {
			k(pos, s)
		} else {
			var nl ByteSet
			nl.Add('\n')
			e.look(nl, pos-1, s, func(ns st) { k(pos, ns) })
		}
	case syntax.OpEndLine:
		if pos == e.n {
			k(pos, s)
		} else {
			var nl ByteSet
			nl.Add('\n')
			e.look(nl, pos, s, func(ns st) { k(pos, ns) })
		}
	case syntax.OpWordBoundary, syntax.OpNoWordBoundary:
		e.fail(&ErrUnsupported{"word boundary assertions"})
	case syntax.OpCapture:
		c1 := append([]int(nil), s.caps...)
		c1[2*re.Cap] = pos
		e.m(re.Sub[0], pos, st{c1, s.reqs}, func(p int, s2 st) {
			c2 := append([]int(nil), s2.caps...)
			c2[2*re.Cap+1] = p
			k(p, st{c2, s2.reqs})
		})
	case syntax.OpConcat:
		var step func(i, p int, s st)
		step = func(i, p int, s st) {
			if i == len(re.Sub) {
				k(p, s)
				return
			}
			e.m(re.Sub[i], p, s, func(np int, ns st) { step(i+1, np, ns) })
		}
		step(0, pos, s)
	case syntax.OpAlternate:
		for _, sub := range re.Sub {
			e.m(sub, pos, s, k)
		}
	case syntax.OpQuest:
		greedy := re.Flags&syntax.NonGreedy == 0
		if greedy {
			e.m(re.Sub[0], pos, s, k)
			k(pos, s)
		} else {
			k(pos, s)
			e.m(re.Sub[0], pos, s, k)
		}
	case syntax.OpStar, syntax.OpPlus:
		greedy := re.Flags&syntax.NonGreedy == 0
		var loop func(p int, s st, must bool)
		loop = func(p int, s st, must bool) {
			more := func() {
				e.m(re.Sub[0], p, s, func(np int, ns st) {
					if np == p {
						return // empty iteration
					}
					loop(np, ns, false)
				})
			}
			if must {
				more()
				return
			}
			if greedy {
				more()
				k(p, s)
			} else {
				k(p, s)
				more()
			}
		}
		loop(pos, s, re.Op == syntax.OpPlus)
	case syntax.OpRepeat:
		// Simplify removes these; handle defensively by expansion
		min, max := re.Min, re.Max
		var rep func(i, p int, s st)
		rep = func(i, p int, s st) {
			if i >= min {
				if max >= 0 && i == max {
					k(p, s)
					return
				}
				e.m(re.Sub[0], p, s, func(np int, ns st) {
					if np == p {
						return
					}
					rep(i+1, np, ns)
				})
				k(p, s)
				return
			}
			e.m(re.Sub[0], p, s, func(np int, ns st) { rep(i+1, np, ns) })
		}
		rep(0, pos, s)
	default:
		e.fail(&ErrUnsupported{re.Op.String()})
	}
}

// Paths enumerates all match paths for inputs of length n in leftmost-first priority order.
func (m *Model) Paths(n, budget int) ([]Path, error) { return m.PathsAllowed(n, budget, nil) }

// PathsAllowed is Paths restricted to inputs whose byte at position i lies in allowed[i].
func (m *Model) PathsAllowed(n, budget int, allowed []ByteSet) ([]Path, error) {
	if allowed == nil {
		if p, ok := m.cache[n]; ok {
			return p, nil
		}
	}
	e := &enum{n: n, budget: budget, allowed: allowed}
	for start := 0; start <= n; start++ {
		caps := make([]int, 2*(m.NumCap+1))
		for i := range caps {
			caps[i] = -1
		}
		s0 := start
		e.m(m.Re, start, st{caps: caps}, func(p int, s st) {
			if e.err != nil {
				return
			}
			c := append([]int(nil), s.caps...)
			c[0], c[1] = s0, p
			reqs, ok := normalise(s.reqs.slice())
			if !ok {
				return
			}
			e.out = append(e.out, Path{Start: s0, End: p, Caps: c, Reqs: reqs})
			if len(e.out) > e.budget {
				e.fail(&ErrBudget{e.budget})
			}
		})
		if e.err != nil {
			return nil, e.err
		}
	}
	if allowed == nil {
		if m.cache == nil {
			m.cache = map[int][]Path{}
		}
		m.cache[n] = e.out
	}
	return e.out, nil
}

// Disjoint reports whether two paths can never both match the same input.
func Disjoint(a, b *Path) bool {
	i, j := 0, 0
	for i < len(a.Reqs) && j < len(b.Reqs) {
		switch {
		case a.Reqs[i].Pos < b.Reqs[j].Pos:
			i++
		case a.Reqs[i].Pos > b.Reqs[j].Pos:
			j++
		default:
			if a.Reqs[i].Set.And(b.Reqs[j].Set).Empty() {
				return true
			}
			i++
			j++
		}
	}
	return false
}

// MatchConcrete evaluates the model on a concrete input: the capture spans of the first matching path, or nil.
func (m *Model) MatchConcrete(in []byte, budget int) ([]int, error) {
	paths, err := m.Paths(len(in), budget)
	if err != nil {
		return nil, err
	}
	for _, p := range paths {
		ok := true
		for _, r := range p.Reqs {
			if !r.Set.Has(in[r.Pos]) {
				ok = false
				break
			}
		}
		if ok {
			return p.Caps, nil
		}
	}
	return nil, nil
}
