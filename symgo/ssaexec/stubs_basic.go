package ssaexec

import (
	"fmt"
	"go/types"
	"math/bits"
	"strconv"
	"strings"

	"symgo/term"
)

// ---------- helpers shared by stubs ----------

func (ex *Exec) stateOf(c *CallCtx) *State { return c.St }

func resultIn(st *State, v Value) *callResult {
	return &callResult{G: st.G, H: st.H, Ret: v, Panics: st.Panics}
}

func (ex *Exec) ptrType(pkg, name string) types.Type {
	return types.NewPointer(ex.NamedType(pkg, name))
}

// fmtMsg is an unrendered formatted message.
type fmtMsg struct {
	Format string
	Args   []Value
}

func (f *fmtMsg) MergeWith(m *merger, o interface{}) (interface{}, bool) {
	g, ok := o.(*fmtMsg)
	if !ok || f.Format != g.Format || len(f.Args) != len(g.Args) {
		return nil, false
	}
	args := make([]Value, len(f.Args))
	for i := range args {
		v, ok := m.val(f.Args[i], g.Args[i])
		if !ok {
			return nil, false
		}
		args[i] = v
	}
	return &fmtMsg{Format: f.Format, Args: args}, true
}

func (ex *Exec) newError(st *State, msg string) IfaceV {
	obj := st.H.Alloc(&StructV{F: []Value{Str(msg)}})
	return IfaceV{T: ex.ptrType("errors", "errorString"), V: PtrV{Obj: obj}}
}

// ioEOF etc. are created once in the initial heap.
func (ex *Exec) variadic(st *State, v Value) []Value {
	s, ok := v.(SliceV)
	if !ok {
		abort("UNSUPPORTED", "variadic argument is %T", v)
	}
	return append([]Value(nil), ex.sliceElems(st, s)...)
}

// unwrapOnce returns the wrapped error of e (nil IfaceV when there is none).
func (ex *Exec) unwrapOnce(c *CallCtx, st *State, e IfaceV) (IfaceV, bool) {
	if e.T == nil {
		return IfaceV{}, false
	}
	if p, ok := e.T.(*types.Pointer); ok {
		if n, ok := p.Elem().(*types.Named); ok && n.Obj().Pkg() != nil && n.Obj().Pkg().Path() == "fmt" && n.Obj().Name() == "wrapError" {
			ptr := e.V.(PtrV)
			return st.H.Load(ptr).(*StructV).F[1].(IfaceV), true
		}
	}
	ms := types.NewMethodSet(e.T)
	for i := 0; i < ms.Len(); i++ {
		sel := ms.At(i)
		if sel.Obj().Name() != "Unwrap" {
			continue
		}
		sig := sel.Type().(*types.Signature)
		if sig.Params().Len() != 0 || sig.Results().Len() != 1 {
			continue
		}
		fn := ex.Prog.MethodValue(sel)
		if fn == nil {
			continue
		}
		res := ex.callFn(c.Fr, st, fn, nil, []Value{e.V}, c.Site)
		if len(res) != 1 || res[0].Panic != nil {
			abort("UNSUPPORTED", "Unwrap of %v did not return in a single state", e.T)
		}
		if iv, ok := res[0].Ret.(IfaceV); ok {
			return iv, true
		}
		return IfaceV{}, false
	}
	return IfaceV{}, false
}

func init() {
	Stubs["errors.New"] = func(ex *Exec, c *CallCtx) []*callResult {
		obj := c.St.H.Alloc(&StructV{F: []Value{c.Args[0]}})
		return c.ret(IfaceV{T: ex.ptrType("errors", "errorString"), V: PtrV{Obj: obj}})
	}
	Stubs["fmt.Errorf"] = func(ex *Exec, c *CallCtx) []*callResult {
		format, ok := c.Args[0].(StringV).Concrete()
		if !ok {
			abort("UNSUPPORTED", "fmt.Errorf with symbolic format")
		}
		args := ex.variadic(c.St, c.Args[1])
		msg := &OpaqueV{Kind: "fmtmsg", Data: &fmtMsg{Format: format, Args: args}}
		// find the %w operand
		wIdx := -1
		ai := 0
		for i := 0; i < len(format); i++ {
			if format[i] != '%' {
				continue
			}
			i++
			for i < len(format) && strings.ContainsRune("+-# 0123456789.[]", rune(format[i])) {
				i++
			}
			if i >= len(format) {
				break
			}
			if format[i] == '%' {
				continue
			}
			if format[i] == 'w' && wIdx < 0 {
				wIdx = ai
			}
			ai++
		}
		if wIdx < 0 || wIdx >= len(args) {
			obj := c.St.H.Alloc(&StructV{F: []Value{msg}})
			return c.ret(IfaceV{T: ex.ptrType("errors", "errorString"), V: PtrV{Obj: obj}})
		}
		wrapped, _ := args[wIdx].(IfaceV)
		obj := c.St.H.Alloc(&StructV{F: []Value{msg, wrapped}})
		return c.ret(IfaceV{T: ex.ptrType("fmt", "wrapError"), V: PtrV{Obj: obj}})
	}
	Stubs["errors.Is"] = func(ex *Exec, c *CallCtx) []*callResult {
		err, _ := c.Args[0].(IfaceV)
		target, _ := c.Args[1].(IfaceV)
		res := term.False()
		for depth := 0; depth < 32; depth++ {
			if err.T == nil {
				break
			}
			res = term.Or(res, ex.eqVal(err, target))
			next, ok := ex.unwrapOnce(c, c.St, err)
			if !ok {
				break
			}
			err = next
		}
		if target.T == nil && c.Args[0].(IfaceV).T == nil {
			res = term.True()
		}
		return c.ret(res)
	}
	Stubs["errors.Unwrap"] = func(ex *Exec, c *CallCtx) []*callResult {
		err, _ := c.Args[0].(IfaceV)
		next, _ := ex.unwrapOnce(c, c.St, err)
		return c.ret(next)
	}
	Stubs["errors.As"] = func(ex *Exec, c *CallCtx) []*callResult {
		err, _ := c.Args[0].(IfaceV)
		tgt := c.Args[1].(IfaceV)
		pt, ok := tgt.T.(*types.Pointer)
		if !ok {
			abort("UNSUPPORTED", "errors.As target %v", tgt.T)
		}
		want := pt.Elem()
		for depth := 0; depth < 32 && err.T != nil; depth++ {
			match := false
			if it, isI := want.Underlying().(*types.Interface); isI {
				match = types.Implements(err.T, it)
			} else {
				match = types.Identical(err.T, want)
			}
			if match {
				if _, isI := want.Underlying().(*types.Interface); isI {
					c.St.H.Store(tgt.V.(PtrV), err)
				} else {
					c.St.H.Store(tgt.V.(PtrV), err.V)
				}
				return c.ret(term.True())
			}
			next, ok := ex.unwrapOnce(c, c.St, err)
			if !ok {
				break
			}
			err = next
		}
		return c.ret(term.False())
	}

	// ---- bytes.Buffer ----
	Stubs["bytes.NewBuffer"] = func(ex *Exec, c *CallCtx) []*callResult {
		z := Zero(ex.NamedType("bytes", "Buffer")).(*StructV)
		z.F[0] = c.Args[0]
		return c.ret(PtrV{Obj: c.St.H.Alloc(z)})
	}
	bufAppend := func(ex *Exec, c *CallCtx, add []Value) {
		p := c.Args[0].(PtrV)
		b := c.St.H.Load(p).(*StructV)
		ns := ex.appendSlice(c.St, b.F[0].(SliceV), add)
		c.St.H.Store(p.Sub(0), ns)
	}
	Stubs["(*bytes.Buffer).WriteByte"] = func(ex *Exec, c *CallCtx) []*callResult {
		bufAppend(ex, c, []Value{c.Args[1]})
		return c.ret(IfaceV{})
	}
	Stubs["(*bytes.Buffer).WriteString"] = func(ex *Exec, c *CallCtx) []*callResult {
		s := c.Args[1].(StringV)
		add := make([]Value, len(s.B))
		for i, b := range s.B {
			add[i] = b
		}
		bufAppend(ex, c, add)
		return c.ret(TupleV{term.Const(64, uint64(len(add))), IfaceV{}})
	}
	Stubs["(*bytes.Buffer).Write"] = func(ex *Exec, c *CallCtx) []*callResult {
		add := append([]Value(nil), ex.sliceElems(c.St, c.Args[1].(SliceV))...)
		bufAppend(ex, c, add)
		return c.ret(TupleV{term.Const(64, uint64(len(add))), IfaceV{}})
	}
	Stubs["(*bytes.Buffer).Reset"] = func(ex *Exec, c *CallCtx) []*callResult {
		// b.buf = b.buf[:0]: the length drops to zero, the underlying storage is retained for later writes
		p := c.Args[0].(PtrV)
		sl := c.St.H.Load(p).(*StructV).F[0].(SliceV)
		sl.Len = 0
		c.St.H.Store(p.Sub(0), sl)
		return c.ret(nil)
	}
	Stubs["(*bytes.Buffer).Bytes"] = func(ex *Exec, c *CallCtx) []*callResult {
		return c.ret(c.St.H.Load(c.Args[0].(PtrV)).(*StructV).F[0])
	}
	Stubs["(*bytes.Buffer).Len"] = func(ex *Exec, c *CallCtx) []*callResult {
		return c.ret(term.Const(64, uint64(c.St.H.Load(c.Args[0].(PtrV)).(*StructV).F[0].(SliceV).Len)))
	}
	Stubs["(*bytes.Buffer).String"] = func(ex *Exec, c *CallCtx) []*callResult {
		return c.ret(StringV{B: ex.sliceBytes(c.St, c.St.H.Load(c.Args[0].(PtrV)).(*StructV).F[0].(SliceV))})
	}
	Stubs["bytes.Equal"] = func(ex *Exec, c *CallCtx) []*callResult {
		a := StringV{B: ex.sliceBytes(c.St, c.Args[0].(SliceV))}
		b := StringV{B: ex.sliceBytes(c.St, c.Args[1].(SliceV))}
		return c.ret(ex.eqVal(a, b))
	}

	// ---- strings.Builder (fields: addr *Builder, buf []byte) ----
	Stubs["(*strings.Builder).Len"] = func(ex *Exec, c *CallCtx) []*callResult {
		return c.ret(term.Const(64, uint64(c.St.H.Load(c.Args[0].(PtrV)).(*StructV).F[1].(SliceV).Len)))
	}
	Stubs["(*strings.Builder).String"] = func(ex *Exec, c *CallCtx) []*callResult {
		return c.ret(StringV{B: ex.sliceBytes(c.St, c.St.H.Load(c.Args[0].(PtrV)).(*StructV).F[1].(SliceV))})
	}
	sbAppend := func(ex *Exec, c *CallCtx, add []Value) {
		p := c.Args[0].(PtrV)
		b := c.St.H.Load(p).(*StructV)
		ns := ex.appendSlice(c.St, b.F[1].(SliceV), add)
		c.St.H.Store(p.Sub(1), ns)
	}
	Stubs["(*strings.Builder).WriteRune"] = func(ex *Exec, c *CallCtx) []*callResult {
		enc, ok := ex.encodeRune(c.St, c.Args[1].(*term.Term))
		if !ok {
			abort("UNSUPPORTED", "WriteRune of a rune not known to be ASCII at %s", ex.posOf(c.Site))
		}
		add := make([]Value, len(enc))
		for i, b := range enc {
			add[i] = b
		}
		sbAppend(ex, c, add)
		return c.ret(TupleV{term.Const(64, uint64(len(add))), IfaceV{}})
	}
	Stubs["(*strings.Builder).WriteByte"] = func(ex *Exec, c *CallCtx) []*callResult {
		sbAppend(ex, c, []Value{c.Args[1]})
		return c.ret(IfaceV{})
	}
	Stubs["(*strings.Builder).WriteString"] = func(ex *Exec, c *CallCtx) []*callResult {
		s := c.Args[1].(StringV)
		add := make([]Value, len(s.B))
		for i, b := range s.B {
			add[i] = b
		}
		sbAppend(ex, c, add)
		return c.ret(TupleV{term.Const(64, uint64(len(add))), IfaceV{}})
	}

	// ---- math/bits ----
	Stubs["math/bits.Mul64"] = func(ex *Exec, c *CallCtx) []*callResult {
		x, y := c.Args[0].(*term.Term), c.Args[1].(*term.Term)
		if x.IsConst() && y.IsConst() {
			hi, lo := bits.Mul64(x.Val, y.Val)
			return c.ret(TupleV{term.Const(64, hi), term.Const(64, lo)})
		}
		p := term.Mul(term.Zext(x, 64), term.Zext(y, 64))
		return c.ret(TupleV{term.Extract(p, 127, 64), term.Extract(p, 63, 0)})
	}
	lenN := func(w int) StubFn {
		return func(ex *Exec, c *CallCtx) []*callResult {
			x := c.Args[0].(*term.Term)
			if x.IsConst() {
				return c.ret(term.Const(64, uint64(bits.Len64(x.Val))))
			}
			// number of bits needed: the largest k with bit k-1 set
			r := term.Const(64, 0)
			for k := 1; k <= w; k++ {
				r = term.Ite(term.Uge(x, term.Const(w, uint64(1)<<uint(k-1))), term.Const(64, uint64(k)), r)
			}
			return c.ret(r)
		}
	}
	Stubs["math/bits.Len64"] = lenN(64)
	Stubs["math/bits.Len32"] = lenN(32)
	Stubs["math/bits.Len"] = lenN(64)
	Stubs["math/bits.TrailingZeros64"] = func(ex *Exec, c *CallCtx) []*callResult {
		x := c.Args[0].(*term.Term)
		r := term.Const(64, 64)
		for k := 63; k >= 0; k-- {
			r = term.Ite(term.Ne(term.Extract(x, k, k), term.Const(1, 0)), term.Const(64, uint64(k)), r)
		}
		return c.ret(r)
	}
	Stubs["math/bits.Add64"] = func(ex *Exec, c *CallCtx) []*callResult {
		x, y, ci := c.Args[0].(*term.Term), c.Args[1].(*term.Term), c.Args[2].(*term.Term)
		s := term.Add(term.Add(term.Zext(x, 1), term.Zext(y, 1)), term.Zext(ci, 1))
		return c.ret(TupleV{term.Extract(s, 63, 0), term.Zext(term.Extract(s, 64, 64), 63)})
	}
	Stubs["math/bits.Div64"] = func(ex *Exec, c *CallCtx) []*callResult {
		hi, lo, y := c.Args[0].(*term.Term), c.Args[1].(*term.Term), c.Args[2].(*term.Term)
		st := c.St
		if !ex.guardOK(c.Fr, st, term.Ne(y, term.Const(64, 0)), c.Site, "integer divide by zero") {
			return nil
		}
		if !ex.guardOK(c.Fr, st, term.Ult(hi, y), c.Site, "integer overflow") {
			return nil
		}
		if hi.IsConst() && hi.Val == 0 {
			return c.ret(TupleV{term.UDiv(lo, y), term.URem(lo, y)})
		}
		n := term.Concat(hi, lo)
		d := term.Zext(y, 64)
		return c.ret(TupleV{term.Extract(term.UDiv(n, d), 63, 0), term.Extract(term.URem(n, d), 63, 0)})
	}

	// ---- reflect (static) ----
	Stubs["reflect.TypeOf"] = func(ex *Exec, c *CallCtx) []*callResult {
		iv := c.Args[0].(IfaceV)
		return c.ret(IfaceV{T: ex.ptrType("reflect", "rtype"), V: &OpaqueV{Kind: "rtype", Data: iv.T}})
	}
	Stubs["(*reflect.rtype).Kind"] = func(ex *Exec, c *CallCtx) []*callResult {
		t := c.Args[0].(*OpaqueV).Data.(types.Type)
		return c.ret(term.Const(64, uint64(reflectKind(t))))
	}

	Stubs["(*reflect.rtype).Elem"] = func(ex *Exec, c *CallCtx) []*callResult {
		t := c.Args[0].(*OpaqueV).Data.(types.Type)
		switch u := t.Underlying().(type) {
		case *types.Pointer:
			return c.ret(IfaceV{T: ex.ptrType("reflect", "rtype"), V: &OpaqueV{Kind: "rtype", Data: u.Elem()}})
		case *types.Slice:
			return c.ret(IfaceV{T: ex.ptrType("reflect", "rtype"), V: &OpaqueV{Kind: "rtype", Data: u.Elem()}})
		}
		abort("UNSUPPORTED", "reflect Type.Elem of %v", t)
		return nil
	}
	Stubs["reflect.New"] = func(ex *Exec, c *CallCtx) []*callResult {
		// a pointer to a new zero value of the (statically known) type, wrapped as a reflect.Value
		iv := c.Args[0].(IfaceV)
		t := iv.V.(*OpaqueV).Data.(types.Type)
		obj := c.St.H.Alloc(Zero(t))
		return c.ret(&OpaqueV{Kind: "reflect.Value", Data: IfaceV{T: types.NewPointer(t), V: PtrV{Obj: obj}}})
	}
	Stubs["(reflect.Value).Interface"] = func(ex *Exec, c *CallCtx) []*callResult {
		return c.ret(c.Args[0].(*OpaqueV).Data.(IfaceV))
	}

	// ---- strconv ----
	Stubs["strconv.AppendUint"] = func(ex *Exec, c *CallCtx) []*callResult {
		base, _ := ex.concreteInt(c.St, c.Args[2].(*term.Term), true)
		if base != 10 {
			abort("UNSUPPORTED", "AppendUint base %d", base)
		}
		var out []*callResult
		for _, r := range ex.decimalDigits(c.St, c.Args[1].(*term.Term), false, 1) {
			add := make([]Value, len(r.out))
			for i, b := range r.out {
				add[i] = b
			}
			out = append(out, resultIn(r.st, ex.appendSlice(r.st, c.Args[0].(SliceV), add)))
		}
		return out
	}
	Stubs["strconv.FormatUint"] = func(ex *Exec, c *CallCtx) []*callResult {
		base, _ := ex.concreteInt(c.St, c.Args[1].(*term.Term), true)
		if base != 10 {
			abort("UNSUPPORTED", "FormatUint base %d", base)
		}
		var out []*callResult
		for _, r := range ex.decimalDigits(c.St, c.Args[0].(*term.Term), false, 1) {
			out = append(out, resultIn(r.st, StringV{B: r.out}))
		}
		return out
	}
	Stubs["strconv.Itoa"] = func(ex *Exec, c *CallCtx) []*callResult {
		var out []*callResult
		for _, r := range ex.decimalDigits(c.St, c.Args[0].(*term.Term), true, 1) {
			out = append(out, resultIn(r.st, StringV{B: r.out}))
		}
		return out
	}
	Stubs["strconv.ParseUint"] = func(ex *Exec, c *CallCtx) []*callResult {
		s := c.Args[0].(StringV)
		base, _ := ex.concreteInt(c.St, c.Args[1].(*term.Term), true)
		bitSize, _ := ex.concreteInt(c.St, c.Args[2].(*term.Term), true)
		if bitSize == 0 {
			bitSize = 64
		}
		if bitSize < 1 || bitSize > 64 {
			abort("UNSUPPORTED", "ParseUint base %d bits %d", base, bitSize)
		}
		if base != 10 {
			return ex.parseIntStubU(c, 0, true) // bases 0, 2, 8, 16: the shared prefix/base logic, without a sign
		}
		val, synOK, rangeOK := parseUintTerm(s.B)
		maxV := ^uint64(0)
		if bitSize < 64 {
			maxV = uint64(1)<<uint(bitSize) - 1
			rangeOK = term.And(rangeOK, term.Ule(val, term.Const(64, maxV)))
		}
		return ex.parseResults(c, "ParseUint", s, val, synOK, rangeOK, term.Const(64, maxV))
	}
	Stubs["strconv.Atoi"] = func(ex *Exec, c *CallCtx) []*callResult {
		s := c.Args[0].(StringV)
		// optional sign
		if len(s.B) > 0 {
			if d := ex.decideCond(c.St, term.Or(term.Eq(s.B[0], term.Const(8, '+')), term.Eq(s.B[0], term.Const(8, '-')))); d != 0 {
				if d == 1 || true {
					// sign possible: handled by a split
					return ex.atoiSigned(c, s)
				}
			}
		}
		val, synOK, rangeOK := parseUintTerm(s.B)
		rangeOK = term.And(rangeOK, term.Ule(val, term.Const(64, 1<<63-1)))
		return ex.parseResults(c, "Atoi", s, val, synOK, rangeOK, term.Const(64, 1<<63-1))
	}
}

func reflectKind(t types.Type) int {
	switch u := t.Underlying().(type) {
	case *types.Basic:
		switch u.Kind() {
		case types.Bool:
			return 1
		case types.Int:
			return 2
		case types.Int8:
			return 3
		case types.Int16:
			return 4
		case types.Int32:
			return 5
		case types.Int64:
			return 6
		case types.Uint:
			return 7
		case types.Uint8:
			return 8
		case types.Uint16:
			return 9
		case types.Uint32:
			return 10
		case types.Uint64:
			return 11
		case types.Uintptr:
			return 12
		case types.Float32:
			return 13
		case types.Float64:
			return 14
		case types.String:
			return 24
		}
	case *types.Array:
		return 17
	case *types.Interface:
		return 20
	case *types.Map:
		return 21
	case *types.Pointer:
		return 22
	case *types.Slice:
		return 23
	case *types.Struct:
		return 25
	case *types.Signature:
		return 19
	}
	abort("UNSUPPORTED", "reflect kind of %v", t)
	return 0
}

type witnessDigits struct {
	ds   []*term.Term
	cons *term.Term
}

type rendered struct {
	st  *State
	out []*term.Term
}

var pow10 = func() [20]uint64 {
	var p [20]uint64
	p[0] = 1
	for i := 1; i < 20; i++ {
		p[i] = p[i-1] * 10
	}
	return p
}()

// decimalDigits renders v in base 10 (optionally signed), splitting the state by digit count.
func (ex *Exec) decimalDigits(st *State, v *term.Term, signed bool, minDigits int) []rendered {
	w := v.W()
	if v.IsConst() {
		var s string
		if signed {
			s = strconv.FormatInt(v.SVal(), 10)
		} else {
			s = strconv.FormatUint(v.Val, 10)
		}
		neg := ""
		if len(s) > 0 && s[0] == '-' {
			neg, s = "-", s[1:]
		}
		md := minDigits
		if neg != "" {
			md--
		}
		for len(s) < md {
			s = "0" + s
		}
		return []rendered{{st, Str(neg + s).B}}
	}
	var out []rendered
	type sideT struct {
		cond *term.Term
		abs  *term.Term
		neg  bool
	}
	sides := []sideT{{term.True(), v, false}}
	if signed {
		neg := term.Slt(v, term.Const(w, 0))
		sides = []sideT{{term.Not(neg), v, false}, {neg, term.Neg(v), true}}
	}
	maxDigits := 20
	if w < 64 {
		maxDigits = len(strconv.FormatUint(wmask(w), 10))
	}
	type cand struct {
		cond *term.Term
		side sideT
		k    int
		lead bool // leading zeros allowed (zero-padded minimum width)
	}
	var cands []cand
	for _, sd := range sides {
		if !ex.feasibleSt(st, sd.cond, true) {
			continue
		}
		md := minDigits
		if sd.neg {
			md--
		}
		if md < 1 {
			md = 1
		}
		if md > maxDigits {
			md = maxDigits
		}
		for k := md; k <= maxDigits; k++ {
			var lo, hi *term.Term
			if k == md {
				lo = term.True()
			} else {
				lo = term.Uge(sd.abs, term.Const(w, pow10[k-1]))
			}
			if k >= 20 || (w < 64 && pow10[k] > wmask(w)) {
				hi = term.True()
			} else {
				hi = term.Ult(sd.abs, term.Const(w, pow10[k]))
			}
			cond := term.And(sd.cond, lo, hi)
			if !ex.feasibleSt(st, cond, true) {
				continue
			}
			cands = append(cands, cand{cond, sd, k, k == md && md > 1})
		}
	}
	for i, cd := range cands {
		var ns *State
		if i == len(cands)-1 {
			ns = st
			ns.G = term.And(st.G, cd.cond)
		} else {
			ns = st.fork(cd.cond)
			ex.Forks++
		}
		// witness digits (memoised per value and digit count so that repeated renderings agree syntactically)
		k := cd.k
		key := fmt.Sprintf("%d|%d|%v", cd.side.abs.ID, k, cd.lead)
		wd, have := ex.digitMemo[key]
		if !have {
			sw := w
			if k < 20 {
				need := bits.Len64(pow10[k]) + 1
				if need < sw {
					sw = need
				}
			} else {
				sw = 68 // 10^20-1 needs 67 bits: no wrap-around, so the digit vector is unique
			}
			wd.ds = make([]*term.Term, k) // ds[0] most significant
			sum := term.Const(sw, 0)
			var cs []*term.Term
			for j := 0; j < k; j++ {
				d := ex.Fresh("d", term.BV(8))
				wd.ds[j] = d
				// "d is a decimal digit" holds wherever d is used at all: a global definition, visible to the
				// interval analysis even after states carrying different digit vectors were merged
				dig := term.Ult(d, term.Const(8, 10))
				ex.Defs = append(ex.Defs, dig)
				globalConj = append(globalConj, dig)
				cs = append(cs, dig)
				var dz *term.Term
				if sw >= 8 {
					dz = term.Zext(d, sw-8)
				} else {
					dz = term.Extract(d, sw-1, 0)
				}
				sum = term.Add(sum, term.Mul(dz, term.Const(sw, pow10[k-1-j])))
			}
			switch {
			case sw == w:
				cs = append(cs, term.Eq(cd.side.abs, sum))
			case sw > w:
				cs = append(cs, term.Eq(term.Zext(cd.side.abs, sw-w), sum))
			default:
				cs = append(cs, term.Eq(cd.side.abs, term.Zext(sum, w-sw)))
			}
			if k > 1 && !cd.lead {
				cs = append(cs, term.Ne(wd.ds[0], term.Const(8, 0)))
			}
			wd.cons = term.And(cs...)
			if ex.digitMemo == nil {
				ex.digitMemo = map[string]witnessDigits{}
			}
			ex.digitMemo[key] = wd
		}
		ds := wd.ds
		ns.G = term.And(ns.G, wd.cons)
		var bs []*term.Term
		if cd.side.neg {
			bs = append(bs, term.Const(8, '-'))
		}
		for _, d := range ds {
			bs = append(bs, term.Add(d, term.Const(8, '0')))
		}
		out = append(out, rendered{ns, bs})
	}
	return out
}

// parseUintTerm follows strconv.ParseUint(s, 10, 64): value, syntax ok, range ok.
func parseUintTerm(bs []*term.Term) (val, synOK, rangeOK *term.Term) {
	if len(bs) == 0 {
		return term.Const(64, 0), term.False(), term.True()
	}
	n := term.Const(64, 0)
	syn := term.True()
	rng := term.True()
	const cutoff = (1<<64-1)/10 + 1
	for i, b := range bs {
		isd := term.And(term.Uge(b, term.Const(8, '0')), term.Ule(b, term.Const(8, '9')))
		syn = term.And(syn, isd)
		d := term.Zext(term.Sub(b, term.Const(8, '0')), 56)
		if i >= 19 {
			rng = term.And(rng, term.Ult(n, term.Const(64, cutoff)))
		}
		n10 := term.Mul(n, term.Const(64, 10))
		n1 := term.Add(n10, d)
		if i >= 19 {
			rng = term.And(rng, term.Uge(n1, n10))
		}
		n = n1
	}
	return n, syn, rng
}

func (ex *Exec) numError(st *State, fn string, s StringV, which string) IfaceV {
	// *strconv.NumError{Func, Num, Err}
	var inner IfaceV
	g := ex.Prog.ImportedPackage("strconv").Var(which)
	if g != nil {
		inner, _ = st.H.Load(PtrV{Obj: ex.globalObj(st, g)}).(IfaceV)
	}
	obj := st.H.Alloc(&StructV{F: []Value{Str(fn), s, inner}})
	return IfaceV{T: ex.ptrType("strconv", "NumError"), V: PtrV{Obj: obj}}
}

func (ex *Exec) parseResults(c *CallCtx, fn string, s StringV, val, synOK, rangeOK, maxVal *term.Term) []*callResult {
	st := c.St
	var out []*callResult
	type alt struct {
		cond *term.Term
		kind int
	}
	alts := []alt{{term.And(synOK, rangeOK), 0}, {term.Not(synOK), 1}, {term.And(synOK, term.Not(rangeOK)), 2}}
	var feas []alt
	for _, a := range alts {
		if ex.feasibleSt(st, a.cond, false) {
			feas = append(feas, a)
		}
	}
	for i, a := range feas {
		var ns *State
		if i == len(feas)-1 {
			ns = st
			ns.G = term.And(st.G, a.cond)
		} else {
			ns = st.fork(a.cond)
			ex.Forks++
		}
		switch a.kind {
		case 0:
			out = append(out, resultIn(ns, TupleV{val, IfaceV{}}))
		case 1:
			out = append(out, resultIn(ns, TupleV{term.Const(64, 0), ex.numError(ns, fn, s, "ErrSyntax")}))
		default:
			out = append(out, resultIn(ns, TupleV{maxVal, ex.numError(ns, fn, s, "ErrRange")}))
		}
	}
	return out
}

func (ex *Exec) atoiSigned(c *CallCtx, s StringV) []*callResult {
	st := c.St
	b0 := s.B[0]
	isMinus := term.Eq(b0, term.Const(8, '-'))
	isPlus := term.Eq(b0, term.Const(8, '+'))
	var out []*callResult
	type alt struct {
		cond   *term.Term
		digits []*term.Term
		neg    bool
	}
	alts := []alt{{term.And(term.Not(isMinus), term.Not(isPlus)), s.B, false}, {isPlus, s.B[1:], false}, {isMinus, s.B[1:], true}}
	for _, a := range alts {
		if !ex.feasibleSt(st, a.cond, false) {
			continue
		}
		ns := st.fork(a.cond)
		ex.Forks++
		val, synOK, rangeOK := parseUintTerm(a.digits)
		maxV := term.Const(64, 1<<63-1)
		if a.neg {
			rangeOK = term.And(rangeOK, term.Ule(val, term.Const(64, 1<<63)))
			val = term.Neg(val)
			maxV = term.Const(64, 1<<63)
		} else {
			rangeOK = term.And(rangeOK, term.Ule(val, term.Const(64, 1<<63-1)))
		}
		sub := &CallCtx{St: ns, Fr: c.Fr, Args: c.Args, Site: c.Site, Fn: c.Fn, Name: c.Name}
		out = append(out, ex.parseResults(sub, "Atoi", s, val, synOK, rangeOK, maxV)...)
	}
	return out
}

var _ = fmt.Sprintf

// parseIntBase: digits of s in the given base (2, 8, 10, 16) by Horner; value (64-bit), syntax ok, fits in 64 bits unsigned.
func parseDigitsBase(bs []*term.Term, base uint64) (val, synOK, rangeOK *term.Term) {
	if len(bs) == 0 {
		return term.Const(64, 0), term.False(), term.True()
	}
	n := term.Const(64, 0)
	syn, rng := term.True(), term.True()
	cutoff := ^uint64(0)/base + 1
	for _, b := range bs {
		isDec := term.And(term.Uge(b, term.Const(8, '0')), term.Ule(b, term.Const(8, '9')))
		isLow := term.And(term.Uge(b, term.Const(8, 'a')), term.Ule(b, term.Const(8, 'z')))
		isUp := term.And(term.Uge(b, term.Const(8, 'A')), term.Ule(b, term.Const(8, 'Z')))
		d := term.Ite(isDec, term.Sub(b, term.Const(8, '0')), term.Ite(isLow, term.Sub(b, term.Const(8, 'a'-10)), term.Sub(b, term.Const(8, 'A'-10))))
		ok := term.And(term.Or(isDec, isLow, isUp), term.Ult(d, term.Const(8, base)))
		syn = term.And(syn, ok)
		rng = term.And(rng, term.Ult(n, term.Const(64, cutoff)))
		n10 := term.Mul(n, term.Const(64, base))
		n1 := term.Add(n10, term.Zext(d, 56))
		rng = term.And(rng, term.Uge(n1, n10))
		n = n1
	}
	return n, syn, rng
}

func init() {
	Stubs["strconv.ParseInt"] = func(ex *Exec, c *CallCtx) []*callResult {
		return ex.parseIntStub(c, 0)
	}
}

// byteDecider answers yes/no questions about an input byte: by the path facts, else by two feasibility queries;
// a byte that can go both ways is outside what the strconv prefix logic models.
type byteDecider struct {
	ex *Exec
	c  *CallCtx
}

func (j *byteDecider) is(p *term.Term, what string) bool {
	switch j.ex.decideCond(j.c.St, p) {
	case 1:
		return true
	case 0:
		return false
	}
	if !j.ex.feasibleSt(j.c.St, p, true) {
		return false
	}
	if !j.ex.feasibleSt(j.c.St, term.Not(p), true) {
		return true
	}
	abort("UNSUPPORTED", "strconv model: cannot decide whether an input byte is %s at %s", what, j.ex.posOf(j.c.Site))
	return false
}

func (j *byteDecider) eq(b *term.Term, c byte) bool {
	return j.is(term.Eq(b, term.Const(8, uint64(c))), "'"+string(c)+"'")
}

// parseIntStub models strconv.ParseInt; lead is 0 (unknown), 1 (first digit is '0') or 2 (it is not).
func (ex *Exec) parseIntStub(c *CallCtx, lead int) []*callResult {
	return ex.parseIntStubU(c, lead, false)
}

func (ex *Exec) parseIntStubU(c *CallCtx, lead int, unsigned bool) []*callResult {
	fname := "ParseInt"
	if unsigned {
		fname = "ParseUint"
	}
	s := c.Args[0].(StringV)
	base, ok1 := ex.concreteInt(c.St, c.Args[1].(*term.Term), true)
	bitSize, ok2 := ex.concreteInt(c.St, c.Args[2].(*term.Term), true)
	if !ok1 || !ok2 {
		abort("UNSUPPORTED", "ParseInt with symbolic base or bit size")
	}
	if bitSize == 0 {
		bitSize = 64
	}
	if len(s.B) == 0 {
		return c.ret(TupleV{term.Const(64, 0), ex.numError(c.St, fname, s, "ErrSyntax")})
	}
	j := &byteDecider{ex, c} // byte predicates decided under the path facts, then by the solver
	digits := s.B
	neg := false
	if !unsigned {
		if j.eq(digits[0], '+') {
			digits = digits[1:]
		} else if j.eq(digits[0], '-') {
			neg = true
			digits = digits[1:]
		}
	}
	b := uint64(base)
	if base == 0 {
		b = 10
		if len(digits) > 1 {
			z := term.Eq(digits[0], term.Const(8, '0'))
			if lead == 0 {
				switch ex.decideCond(c.St, z) {
				case 1:
					lead = 1
				case 0:
					lead = 2
				default:
					// the prefix decides the base: split the state
					var out []*callResult
					for i, st := range ex.splitStates(c.St, []*term.Term{z, term.Not(z)}, false) {
						if st != nil {
							sub := &CallCtx{St: st, Fr: c.Fr, Args: c.Args, Site: c.Site, Fn: c.Fn, Name: c.Name}
							out = append(out, ex.parseIntStubU(sub, i+1, unsigned)...)
						}
					}
					return out
				}
			}
			if lead == 1 {
				switch {
				case j.eq(digits[1], 'x') || j.eq(digits[1], 'X'):
					b, digits = 16, digits[2:]
				case j.eq(digits[1], 'o') || j.eq(digits[1], 'O'):
					b, digits = 8, digits[2:]
				case j.eq(digits[1], 'b') || j.eq(digits[1], 'B'):
					b, digits = 2, digits[2:]
				default:
					b, digits = 8, digits[1:]
				}
			}
		}
		for _, d := range digits {
			if j.is(term.Eq(d, term.Const(8, '_')), "an underscore") {
				abort("UNSUPPORTED", "ParseInt base 0 with underscores")
			}
		}
	}
	if b != 2 && b != 8 && b != 10 && b != 16 {
		abort("UNSUPPORTED", "ParseInt base %d", b)
	}
	val, synOK, rangeOK := parseDigitsBase(digits, b)
	if unsigned {
		maxU := ^uint64(0)
		if bitSize < 64 {
			maxU = uint64(1)<<uint(bitSize) - 1
			rangeOK = term.And(rangeOK, term.Ule(val, term.Const(64, maxU)))
		}
		return ex.parseResults(c, fname, s, val, synOK, rangeOK, term.Const(64, maxU))
	}
	lim := uint64(1) << uint(bitSize-1)
	var res, maxV *term.Term
	if neg {
		rangeOK = term.And(rangeOK, term.Ule(val, term.Const(64, lim)))
		res = term.Neg(val)
		maxV = term.Const(64, -lim)
	} else {
		rangeOK = term.And(rangeOK, term.Ule(val, term.Const(64, lim-1)))
		res = val
		maxV = term.Const(64, lim-1)
	}
	return ex.parseResults(c, "ParseInt", s, res, synOK, rangeOK, maxV)
}
