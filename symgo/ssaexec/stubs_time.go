package ssaexec

import (
	"symgo/term"
)

// time.Time is modelled on the real struct's three fields, reinterpreted:
//   F[0] (wall) = nanoseconds since UTC midnight, 0 <= ns < 86400e9 (64-bit)
//   F[1] (ext)  = days since 0001-01-01 UTC (64-bit signed)
//   F[2] (loc)  = nil for UTC or a pointer to a location object &StructV{offsetSeconds}
// The proleptic Gregorian calendar is axiomatised by a closed-form day ordinal (DESIGN.md 3.3).

const (
	nsPerDay  = 86400 * 1000000000
	yearShift = 21474837 // 400*yearShift > 2^33
)

func c64(v int64) *term.Term { return term.Const(64, uint64(v)) }

// daysBeforeYear: days from 0001-01-01 to Jan 1 of year y (|y| <= 2^33), may be negative.
func daysBeforeYear(y *term.Term) *term.Term {
	a := term.Add(y, c64(400*yearShift-1)) // >= 0
	d := term.Mul(a, c64(365))
	d = term.Add(d, term.UDiv(a, c64(4)))
	d = term.Sub(d, term.UDiv(a, c64(100)))
	d = term.Add(d, term.UDiv(a, c64(400)))
	return term.Sub(d, c64(yearShift*146097))
}

func isLeap(y *term.Term) *term.Term {
	yy := term.Add(y, c64(400*yearShift))
	z := c64(0)
	// the shape a merged `(u%4 == 0 && u%100 != 0) || u%400 == 0` takes, so that harness oracles written that way share the term
	div400 := term.Eq(term.URem(yy, c64(400)), z)
	return term.Ite(term.Eq(term.URem(yy, c64(4)), z), term.Or(term.Ne(term.URem(yy, c64(100)), z), div400), div400)
}

var cumDays = [13]int64{0, 0, 31, 59, 90, 120, 151, 181, 212, 243, 273, 304, 334}

// monthOffset: days before month m (1..12) in year y.
func monthOffset(y, m *term.Term) *term.Term {
	r := c64(cumDays[12])
	for k := 11; k >= 1; k-- {
		r = term.Ite(term.Eq(m, c64(int64(k))), c64(cumDays[k]), r)
	}
	adj := term.Ite(term.And(isLeap(y), term.Sgt(m, c64(2))), c64(1), c64(0))
	return term.Add(r, adj)
}

func daysIn(y, m *term.Term) *term.Term {
	is := func(k int64) *term.Term { return term.Eq(m, c64(k)) }
	return term.Ite(term.Or(is(4), is(6), is(9), is(11)), c64(30),
		term.Ite(is(2), term.Ite(isLeap(y), c64(29), c64(28)), c64(31)))
}

func validYMD(y, m, d *term.Term) *term.Term {
	return term.And(term.Sge(m, c64(1)), term.Sle(m, c64(12)), term.Sge(d, c64(1)), term.Sle(d, daysIn(y, m)))
}

// ordinalNorm: day ordinal of (year, month, day) with Go's normalisation of out-of-range months and days.
func ordinalNorm(year, month, day *term.Term) (*term.Term, *term.Term) {
	return ordinalNormD(year, month, day, nil)
}

// ordinalNormD skips the month normalisation when decide shows the month is certainly within 1..12.
func ordinalNormD(year, month, day *term.Term, decide func(*term.Term) int8) (*term.Term, *term.Term) {
	if decide != nil && decide(term.And(term.Sge(month, c64(1)), term.Sle(month, c64(12)))) == 1 {
		ord := term.Add(term.Add(daysBeforeYear(year), monthOffset(year, month)), term.Sub(day, c64(1)))
		pre := term.And(term.Sge(year, c64(-(1<<33))), term.Sle(year, c64(1<<33)), term.Sge(day, c64(-(1<<40))), term.Sle(day, c64(1<<40)))
		return ord, pre
	}
	const K = int64(1) << 33
	m0 := term.Add(term.Sub(month, c64(1)), c64(12*K)) // >= 0 for |month| < 2^36
	q := term.Sub(term.UDiv(m0, c64(12)), c64(K))
	r := term.URem(m0, c64(12))
	y := term.Add(year, q)
	m := term.Add(r, c64(1))
	ord := term.Add(term.Add(daysBeforeYear(y), monthOffset(y, m)), term.Sub(day, c64(1)))
	pre := term.And(term.Sge(y, c64(-(1<<33))), term.Sle(y, c64(1<<33)), term.Sge(month, c64(-(1<<35))), term.Sle(month, c64(1<<35)),
		term.Sge(day, c64(-(1<<40))), term.Sle(day, c64(1<<40)))
	return ord, pre
}

// floorDivC: floor(a / c), a mod c for signed a and constant c > 0.
func floorDivC(a *term.Term, c int64) (*term.Term, *term.Term) {
	q := term.SDiv(a, c64(c))
	r := term.SRem(a, c64(c))
	neg := term.Slt(r, c64(0))
	return term.Ite(neg, term.Sub(q, c64(1)), q), term.Ite(neg, term.Add(r, c64(c)), r)
}

func (ex *Exec) precond(c *CallCtx, st *State, name string, cond *term.Term) {
	if ex.decideCond(st, cond) == 1 {
		return
	}
	ex.VCs = append(ex.VCs, &VC{Label: "stub-precondition:" + name, Guard: st.G, Cond: cond, Kind: "precond", Site: ex.posOf(c.Site)})
}

// timeV builds a Time without civil-date provenance.
func timeV(ns, days *term.Term, loc Value) *StructV {
	return &StructV{F: []Value{ns, days, loc, &StructV{F: []Value{term.False(), c64(0), c64(0), c64(0)}}}}
}

// timeVCivil builds a Time that is known to show civil date (y, m, d) in its own location whenever ok holds.
func timeVCivil(ns, days *term.Term, loc Value, ok, y, m, d *term.Term) *StructV {
	return &StructV{F: []Value{ns, days, loc, &StructV{F: []Value{ok, y, m, d}}}}
}

func provenance(t *StructV) (ok, y, m, d *term.Term) {
	if len(t.F) < 4 {
		return term.False(), c64(0), c64(0), c64(0)
	}
	p := t.F[3].(*StructV)
	return p.F[0].(*term.Term), p.F[1].(*term.Term), p.F[2].(*term.Term), p.F[3].(*term.Term)
}

func (ex *Exec) locOffset(st *State, loc Value) *term.Term {
	p, ok := loc.(PtrV)
	if !ok || p.Obj == 0 {
		return c64(0)
	}
	return st.H.Load(p).(*StructV).F[0].(*term.Term)
}

// localDays: day ordinal shown in the time's own location.
func (ex *Exec) localDays(st *State, t *StructV) (*term.Term, *term.Term) {
	ns, days := t.F[0].(*term.Term), t.F[1].(*term.Term)
	off := ex.locOffset(st, t.F[2])
	if off.IsConst() && off.Val == 0 {
		return days, ns
	}
	local := term.Add(ns, term.Mul(off, c64(1000000000))) // |off| <= 86400 s: no overflow
	q, r := floorDivC(local, nsPerDay)
	return term.Add(days, q), r
}

// boundYear adds, for this state only, constant bounds on the witness year that follow from the linear
// consequences above and the range the path facts give for the ordinal: they let the
// int32 packing of the year simplify away.
func (ex *Exec) boundYear(st *State, y, ord *term.Term) {
	r, ok := st.facts().srangeOf(ord)
	if !ok || r.hi >= 1<<40 || r.lo <= -(1<<40) {
		return
	}
	// Y-1 lies between (400*ord-146288)/146097 and (400*ord+591)/146097 (real division); the slack covers truncation
	ylo := (400*r.lo-146288)/146097 - 2
	yhi := (400*r.hi+591)/146097 + 3
	st.G = term.And(st.G, term.Sge(y, c64(ylo)), term.Sle(y, c64(yhi)))
}

type ymdWitness struct {
	y, m, d *term.Term
	cons    *term.Term
}

func (ex *Exec) freshYMD(st *State, ord *term.Term) (y, m, d *term.Term) {
	if ord.IsConst() {
		// concrete: compute directly
		yy, mm, dd := civilFromDays(int64(ord.Val))
		return c64(yy), c64(mm), c64(dd)
	}
	if memo, ok := ex.ymdMemo[ord.ID]; ok {
		// the civil date is a function of the ordinal: the same ordinal term gets the same witnesses
		st.G = term.And(st.G, memo.cons)
		ex.boundYear(st, memo.y, ord)
		return memo.y, memo.m, memo.d
	}
	y, m, d = ex.Fresh("Y", term.BV(64)), ex.Fresh("M", term.BV(64)), ex.Fresh("D", term.BV(64))
	// the month is within 1..12 by validity, so the plain (un-normalised) ordinal applies
	o := term.Add(term.Add(daysBeforeYear(y), monthOffset(y, m)), term.Sub(d, c64(1)))
	// redundant linear consequences of the closed form (for every year: 146097(Y-1)-591 <= 400*ord(Y,1,1) <= 146097(Y-1)+288,
	// and the day of the year is 0..365); they let a solver bound the year from the ordinal without inverting the divisions
	o400 := term.Mul(ord, c64(400))
	yl := term.Mul(term.Sub(y, c64(1)), c64(146097))
	lin := term.And(term.Sge(o400, term.Sub(yl, c64(591))), term.Sle(o400, term.Add(yl, c64(146288))))
	cons := term.And(term.Sge(y, c64(-(1<<33))), term.Sle(y, c64(1<<33)), validYMD(y, m, d), term.Eq(o, ord), lin)
	if ex.ymdMemo == nil {
		ex.ymdMemo = map[int]ymdWitness{}
	}
	ex.ymdMemo[ord.ID] = ymdWitness{y, m, d, cons}
	st.G = term.And(st.G, cons)
	ex.boundYear(st, y, ord)
	return
}

// civilFromDays: concrete inverse of the ordinal (days since 0001-01-01).
func civilFromDays(z int64) (int64, int64, int64) {
	z += 306 // shift to 0000-03-01
	era := z / 146097
	if z < 0 {
		era = (z - 146096) / 146097
	}
	doe := z - era*146097
	yoe := (doe - doe/1460 + doe/36524 - doe/146096) / 365
	y := yoe + era*400
	doy := doe - (365*yoe + yoe/4 - yoe/100)
	mp := (5*doy + 2) / 153
	d := doy - (153*mp+2)/5 + 1
	m := mp + 3
	if m > 12 {
		m -= 12
		y++
	}
	return y, m, d
}

func init() {
	ExtGlobals["time.UTC"] = func(ex *Exec, st *State) Value {
		return PtrV{Obj: st.H.Alloc(&StructV{F: []Value{c64(0)}})}
	}
	ExtGlobals["time.Local"] = func(ex *Exec, st *State) Value {
		return PtrV{Obj: st.H.Alloc(&StructV{F: []Value{c64(0)}})}
	}
	Stubs["time.FixedZone"] = func(ex *Exec, c *CallCtx) []*callResult {
		off := c.Args[1].(*term.Term)
		ex.precond(c, c.St, "time.FixedZone-offset-within-a-day", term.And(term.Sge(off, c64(-86400)), term.Sle(off, c64(86400))))
		return c.ret(PtrV{Obj: c.St.H.Alloc(&StructV{F: []Value{off}})})
	}
	Stubs["time.Date"] = func(ex *Exec, c *CallCtx) []*callResult {
		a := func(i int) *term.Term { return c.Args[i].(*term.Term) }
		ord, pre := ordinalNormD(a(0), a(1), a(2), func(t *term.Term) int8 { return ex.decideCond(c.St, t) })
		ex.precond(c, c.St, "time.Date-component-range", pre)
		loc := c.Args[7]
		off := ex.locOffset(c.St, loc)
		tod := c64(0)
		allZero := true
		for i := 3; i <= 6; i++ {
			if !(a(i).IsConst() && a(i).Val == 0) {
				allZero = false
			}
		}
		if !allZero {
			// (hour*3600 + min*60 + sec)*1e9 + nsec, components assumed small enough not to wrap
			secs := term.Add(term.Add(term.Mul(a(3), c64(3600)), term.Mul(a(4), c64(60))), a(5))
			tod = term.Add(term.Mul(secs, c64(1000000000)), a(6))
			lim := c64(1 << 40)
			nl := c64(-(1 << 40))
			ex.precond(c, c.St, "time.Date-clock-range", term.And(term.Sle(a(3), lim), term.Sge(a(3), nl), term.Sle(a(4), lim), term.Sge(a(4), nl), term.Sle(a(5), lim), term.Sge(a(5), nl), term.Sle(a(6), c64(1<<60)), term.Sge(a(6), c64(-(1<<60)))))
		}
		valid := validYMD(a(0), a(1), a(2))
		if allZero && off.IsConst() && off.Val == 0 {
			return c.ret(timeVCivil(c64(0), ord, loc, valid, a(0), a(1), a(2)))
		}
		inst := term.Sub(tod, term.Mul(off, c64(1000000000)))
		q, r := floorDivC(inst, nsPerDay)
		clockOK := term.And(term.Sge(tod, c64(0)), term.Slt(tod, c64(nsPerDay)))
		return c.ret(timeVCivil(r, term.Add(ord, q), loc, term.And(valid, clockOK), a(0), a(1), a(2)))
	}
	Stubs["(time.Time).Date"] = func(ex *Exec, c *CallCtx) []*callResult {
		t := c.Args[0].(*StructV)
		pok, py, pm, pd := provenance(t)
		if ex.decideCond(c.St, pok) == 1 {
			return c.ret(TupleV{py, pm, pd})
		}
		ld, _ := ex.localDays(c.St, t)
		y, m, d := ex.freshYMD(c.St, ld)
		if pok.IsFalse() {
			return c.ret(TupleV{y, m, d})
		}
		return c.ret(TupleV{term.Ite(pok, py, y), term.Ite(pok, pm, m), term.Ite(pok, pd, d)})
	}
	civil := func(ex *Exec, c *CallCtx) (y, m, d *term.Term) {
		t := c.Args[0].(*StructV)
		pok, py, pm, pd := provenance(t)
		if ex.decideCond(c.St, pok) == 1 {
			return py, pm, pd
		}
		ld, _ := ex.localDays(c.St, t)
		fy, fm, fd := ex.freshYMD(c.St, ld)
		if pok.IsFalse() {
			return fy, fm, fd
		}
		return term.Ite(pok, py, fy), term.Ite(pok, pm, fm), term.Ite(pok, pd, fd)
	}
	Stubs["(time.Time).Year"] = func(ex *Exec, c *CallCtx) []*callResult { y, _, _ := civil(ex, c); return c.ret(y) }
	Stubs["(time.Time).Month"] = func(ex *Exec, c *CallCtx) []*callResult { _, m, _ := civil(ex, c); return c.ret(m) }
	Stubs["(time.Time).Day"] = func(ex *Exec, c *CallCtx) []*callResult { _, _, d := civil(ex, c); return c.ret(d) }
	Stubs["(time.Time).YearDay"] = func(ex *Exec, c *CallCtx) []*callResult {
		y, m, d := civil(ex, c)
		return c.ret(term.Add(monthOffset(y, m), d))
	}
	Stubs["(time.Time).Zone"] = func(ex *Exec, c *CallCtx) []*callResult {
		t := c.Args[0].(*StructV)
		return c.ret(TupleV{Str(""), ex.locOffset(c.St, t.F[2])})
	}
	Stubs["(time.Time).UTC"] = func(ex *Exec, c *CallCtx) []*callResult {
		t := c.Args[0].(*StructV)
		g := ex.Prog.ImportedPackage("time").Var("UTC")
		utc := c.St.H.Load(PtrV{Obj: ex.globalObj(c.St, g)})
		off := ex.locOffset(c.St, t.F[2])
		if off.IsConst() && off.Val == 0 {
			return c.ret(&StructV{F: []Value{t.F[0], t.F[1], utc, t.F[3]}})
		}
		return c.ret(timeV(t.F[0].(*term.Term), t.F[1].(*term.Term), utc))
	}
	Stubs["(time.Time).IsZero"] = func(ex *Exec, c *CallCtx) []*callResult {
		t := c.Args[0].(*StructV)
		byOrd := term.And(term.Eq(t.F[0].(*term.Term), c64(0)), term.Eq(t.F[1].(*term.Term), c64(0)))
		pok, py, pm, pd := provenance(t)
		off := ex.locOffset(c.St, t.F[2])
		if pok.IsFalse() || !(off.IsConst() && off.Val == 0) {
			return c.ret(byOrd)
		}
		// a UTC time built from a valid civil date is the zero time iff that date is 0001-01-01 at midnight
		byCivil := term.And(term.Eq(t.F[0].(*term.Term), c64(0)), term.Eq(py, c64(1)), term.Eq(pm, c64(1)), term.Eq(pd, c64(1)))
		return c.ret(term.Ite(pok, byCivil, byOrd))
	}
	Stubs["(time.Time).Equal"] = func(ex *Exec, c *CallCtx) []*callResult {
		t, u := c.Args[0].(*StructV), c.Args[1].(*StructV)
		return c.ret(term.And(term.Eq(t.F[0].(*term.Term), u.F[0].(*term.Term)), term.Eq(t.F[1].(*term.Term), u.F[1].(*term.Term))))
	}
	tcmp := func(strictAfter bool) StubFn {
		return func(ex *Exec, c *CallCtx) []*callResult {
			t, u := c.Args[0].(*StructV), c.Args[1].(*StructV)
			td, ud := t.F[1].(*term.Term), u.F[1].(*term.Term)
			tn, un := t.F[0].(*term.Term), u.F[0].(*term.Term)
			less := term.Or(term.Slt(td, ud), term.And(term.Eq(td, ud), term.Ult(tn, un)))
			more := term.Or(term.Slt(ud, td), term.And(term.Eq(td, ud), term.Ult(un, tn)))
			if strictAfter {
				return c.ret(more)
			}
			return c.ret(less)
		}
	}
	Stubs["(time.Time).After"] = tcmp(true)
	Stubs["(time.Time).Before"] = tcmp(false)
	Stubs["(time.Time).AddDate"] = func(ex *Exec, c *CallCtx) []*callResult {
		t := c.Args[0].(*StructV)
		ld, _ := ex.localDays(c.St, t)
		var y, m, d *term.Term
		if pok, py, pm, pd := provenance(t); !pok.IsFalse() && !ex.feasibleSt(c.St, term.Not(pok), true) {
			// the time certainly shows the civil date it was built from (one solver query when the path facts alone do not show it)
			y, m, d = py, pm, pd
		} else {
			y, m, d = civil(ex, c)
		}
		a := func(i int) *term.Term { return c.Args[i].(*term.Term) }
		ord, pre := ordinalNorm(term.Add(y, a(1)), term.Add(m, a(2)), term.Add(d, a(3)))
		ex.precond(c, c.St, "time.AddDate-component-range", pre)
		delta := term.Sub(ord, ld)
		return c.ret(timeV(t.F[0].(*term.Term), term.Add(t.F[1].(*term.Term), delta), t.F[2]))
	}
	Stubs["(time.Time).Add"] = func(ex *Exec, c *CallCtx) []*callResult {
		t := c.Args[0].(*StructV)
		d := c.Args[1].(*term.Term)
		q, r := floorDivC(d, nsPerDay)
		ns2 := term.Add(t.F[0].(*term.Term), r)
		carry := term.Uge(ns2, c64(nsPerDay))
		ns3 := term.Ite(carry, term.Sub(ns2, c64(nsPerDay)), ns2)
		days := term.Add(term.Add(t.F[1].(*term.Term), q), term.Ite(carry, c64(1), c64(0)))
		return c.ret(timeV(ns3, days, t.F[2]))
	}
	Stubs["(time.Time).Sub"] = func(ex *Exec, c *CallCtx) []*callResult {
		t, u := c.Args[0].(*StructV), c.Args[1].(*StructV)
		dd := term.Sub(t.F[1].(*term.Term), u.F[1].(*term.Term))
		dn := term.Sub(t.F[0].(*term.Term), u.F[0].(*term.Term))
		if sr, ok := c.St.facts().srangeLin(dd); ok && sr.lo >= -106751 && sr.hi <= 106751 && dn.IsConst() && dn.Val == 0 {
			// whole days within time.Duration's range: no saturation, the plain product
			return c.ret(term.Mul(dd, c64(nsPerDay)))
		}
		ex.precond(c, c.St, "time.Sub-day-difference-below-2^62", term.And(term.Sle(dd, c64(1<<62)), term.Sge(dd, c64(-(1<<62)))))
		tot := term.Add(term.Mul(term.Sext(dd, 64), term.Sext(c64(nsPerDay), 64)), term.Sext(dn, 64))
		maxV := term.Sext(c64(1<<63-1), 64)
		minV := term.Sext(term.Const(64, 1<<63), 64)
		res := term.Ite(term.Sgt(tot, maxV), c64(1<<63-1), term.Ite(term.Slt(tot, minV), term.Const(64, 1<<63), term.Extract(tot, 63, 0)))
		return c.ret(res)
	}
	Stubs["(time.Duration).Hours"] = func(ex *Exec, c *CallCtx) []*callResult {
		d := c.Args[0].(*term.Term)
		const hour = 3600 * 1000000000
		h := term.SDiv(d, c64(hour))
		ns := term.SRem(d, c64(hour))
		if d.Op == term.OMul {
			// (x*k) with hour | k and no overflow: exactly x*(k/hour) hours and no remainder
			for i := 0; i < 2; i++ {
				k, x := d.Args[i], d.Args[1-i]
				if k.IsConst() && k.SVal() > 0 && k.SVal()%hour == 0 {
					if xr, ok := c.St.facts().srangeLin(x); ok {
						_, o1 := mulOv(xr.lo, k.SVal())
						_, o2 := mulOv(xr.hi, k.SVal())
						if o1 && o2 {
							h, ns = term.Mul(x, c64(k.SVal()/hour)), c64(0)
							break
						}
					}
				}
			}
		}
		return c.ret(term.FpArith(term.OFpAdd, term.FpFromBV(h, 64, true), term.FpArith(term.OFpDiv, term.FpFromBV(ns, 64, true), term.FPConst64(60*60*1e9))))
	}
	Stubs["time.Now"] = func(ex *Exec, c *CallCtx) []*callResult {
		ns := ex.Fresh("now_ns", term.BV(64))
		days := ex.Fresh("now_days", term.BV(64))
		g := term.And(c.St.G, term.Ult(ns, c64(nsPerDay)), term.Sge(days, c64(0)), term.Sle(days, c64(3652059)))
		if ex.Concrete != nil {
			ns, days = c64(0), c64(738000)
			g = c.St.G
		}
		return []*callResult{{G: g, H: c.St.H, Ret: timeV(ns, days, PtrV{}), Panics: c.St.Panics}}
	}
	Stubs["(time.Time).UnixNano"] = func(ex *Exec, c *CallCtx) []*callResult {
		t := c.Args[0].(*StructV)
		return c.ret(term.Add(term.Mul(term.Sub(t.F[1].(*term.Term), c64(719162)), c64(nsPerDay)), t.F[0].(*term.Term)))
	}
	Stubs["(time.Time).Unix"] = func(ex *Exec, c *CallCtx) []*callResult {
		t := c.Args[0].(*StructV)
		return c.ret(term.Add(term.Mul(term.Sub(t.F[1].(*term.Term), c64(719162)), c64(86400)), term.UDiv(t.F[0].(*term.Term), c64(1000000000))))
	}
	Stubs["(time.Time).UnixMilli"] = func(ex *Exec, c *CallCtx) []*callResult {
		t := c.Args[0].(*StructV)
		ms := term.Add(term.Mul(term.Sub(t.F[1].(*term.Term), c64(719162)), c64(86400000)), term.UDiv(t.F[0].(*term.Term), c64(1000000)))
		return c.ret(ms)
	}
}
