package ssaexec

import (
	"math/bits"

	"symgo/term"
)

// Unsigned interval reasoning over terms under the facts carried by a path guard. It is used only to
// prune branches and to concretise values without calling a solver: an "unknown" answer is always safe.

type rng struct{ lo, hi uint64 }

type facts struct {
	parent   *facts
	depth    int
	r        map[int]rng // unsigned bounds by term id set at this level (already intersected with the ancestors')
	terms    map[int]*term.Term
	memo     map[int]rng
	bm       map[int]int8
	vals     map[int][]uint64 // exact finite value sets by term id (from equalities and disjunctions of equalities)
	empty    bool             // some term's range became empty: the guard is unsatisfiable
	check    int8             // 0 = not yet checked, 1 = consistent, 2 = inconsistent
	conj     []*term.Term     // all conjuncts covered by this chain (sorted by id)
	sb       map[int]sbound   // signed bounds by term id (combined along the chain)
	smemo    map[int]*srng
	sub      map[int]*facts
	nsub     int // contexts created below this object (capped)
	ctx      int // nesting depth of under()
	inSigned bool
}

type sbound struct {
	lo, hi int64
	w      int
}

func (f *facts) getS(id int) (sbound, bool) {
	for x := f; x != nil; x = x.parent {
		if s, ok := x.sb[id]; ok {
			return s, true
		}
	}
	return sbound{}, false
}

func (f *facts) getR(id int) (rng, bool) {
	for x := f; x != nil; x = x.parent {
		if r, ok := x.r[id]; ok {
			return r, true
		}
	}
	return rng{}, false
}

func (f *facts) getVals(id int) ([]uint64, bool) {
	for x := f; x != nil; x = x.parent {
		if v, ok := x.vals[id]; ok {
			return v, true
		}
	}
	return nil, false
}

func (f *facts) getTerm(id int) *term.Term {
	for x := f; x != nil; x = x.parent {
		if t, ok := x.terms[id]; ok {
			return t
		}
	}
	return nil
}

// consistent reports false when the facts contradict the structure of the terms they constrain.
func (f *facts) consistent() bool {
	if f.check == 0 {
		f.check = 1
		if f.parent != nil && !f.parent.consistent() {
			f.empty = true
		}
		for _, t := range f.terms {
			r := f.rangeOf(t)
			if r.lo > r.hi {
				f.empty = true
			}
		}
		if f.empty {
			f.check = 2
		}
	}
	return f.check == 1
}

func wmask(w int) uint64 {
	if w >= 64 {
		return ^uint64(0)
	}
	return (uint64(1) << uint(w)) - 1
}

var factsCache = map[int]*facts{}

func sortedConj(g *term.Term) []*term.Term {
	if g.Op == term.OAnd {
		return g.Args
	}
	if g.IsTrue() {
		return nil
	}
	return []*term.Term{g}
}

func factsOf(g *term.Term) *facts {
	if f, ok := factsCache[g.ID]; ok {
		return f
	}
	f := newFacts(nil, sortedConj(g), sortedConj(g))
	factsCache[g.ID] = f
	return f
}

// factsExtend derives the facts of g from those of an ancestor guard when g only adds conjuncts.
func factsExtend(pg *term.Term, pf *facts, g *term.Term) *facts {
	if f, ok := factsCache[g.ID]; ok {
		return f
	}
	if pf == nil || pf.depth > 40 {
		return factsOf(g)
	}
	pc, gc := pf.conj, sortedConj(g)
	var extra []*term.Term
	i := 0
	for _, c := range gc {
		for i < len(pc) && pc[i].ID < c.ID {
			// a conjunct of the ancestor is missing in g: not an extension
			return factsOf(g)
		}
		if i < len(pc) && pc[i] == c {
			i++
			continue
		}
		extra = append(extra, c)
	}
	if i < len(pc) {
		return factsOf(g)
	}
	_ = pg
	f := newFacts(pf, extra, gc)
	factsCache[g.ID] = f
	return f
}

// globalConj are facts that hold on every path (ranges of witness variables).
var globalConj []*term.Term

func newFacts(parent *facts, conj []*term.Term, all []*term.Term) *facts {
	if parent == nil && len(globalConj) > 0 {
		conj = append(append([]*term.Term(nil), globalConj...), conj...)
	}
	f := &facts{parent: parent, r: map[int]rng{}, terms: map[int]*term.Term{}, memo: map[int]rng{}, bm: map[int]int8{}, vals: map[int][]uint64{}, conj: all}
	if parent != nil {
		f.depth = parent.depth + 1
		f.empty = parent.empty
	}
	f.sb = map[int]sbound{}
	tight := func(t *term.Term, lo, hi uint64) {
		if t.Sort.K != term.KBV || t.W() > 64 {
			return
		}
		cur, ok := f.getR(t.ID)
		if !ok {
			cur = rng{0, wmask(t.W())}
		}
		if lo > cur.lo {
			cur.lo = lo
		}
		if hi < cur.hi {
			cur.hi = hi
		}
		f.r[t.ID] = cur
		f.terms[t.ID] = t
		if cur.lo > cur.hi {
			f.empty = true
		}
	}
	stight := func(t *term.Term, lo, hi int64) {
		if t.W() > 64 {
			return
		}
		s, ok := f.getS(t.ID)
		if !ok {
			s = sbound{lo: -1 << 63, hi: 1<<63 - 1, w: t.W()}
		}
		if lo > s.lo {
			s.lo = lo
		}
		if hi < s.hi {
			s.hi = hi
		}
		f.sb[t.ID] = s
		f.terms[t.ID] = t
	}
	for _, c := range conj {
		neg := false
		if c.Op == term.ONot {
			neg = true
			c = c.Args[0]
		}
		switch c.Op {
		case term.OUlt, term.OUle:
			a, b := c.Args[0], c.Args[1]
			if a.W() > 64 {
				continue
			}
			strict := c.Op == term.OUlt
			if b.IsConst() {
				k := b.Val
				if !neg { // a < k / a <= k
					if strict {
						if k == 0 {
							continue
						}
						k--
					}
					tight(a, 0, k)
				} else { // a >= k / a > k
					if !strict {
						if k == wmask(a.W()) {
							continue
						}
						k++
					}
					tight(a, k, wmask(a.W()))
				}
			} else if a.IsConst() {
				k := a.Val
				if !neg { // k < b / k <= b
					if strict {
						if k == wmask(b.W()) {
							continue
						}
						k++
					}
					tight(b, k, wmask(b.W()))
				} else { // b <= k / b < k
					if !strict {
						if k == 0 {
							continue
						}
						k--
					}
					tight(b, 0, k)
				}
			} else if !neg {
				// a <= b with both symbolic: bound each side by the other's range
				ra, rb := f.rangeOf(a), f.rangeOf(b)
				if rb.hi < wmask(a.W()) {
					tight(a, 0, rb.hi)
				}
				if ra.lo > 0 {
					tight(b, ra.lo, wmask(b.W()))
				}
				delete(f.memo, a.ID)
				delete(f.memo, b.ID)
			}
		case term.OSlt, term.OSle:
			a, b := c.Args[0], c.Args[1]
			if a.W() > 64 {
				continue
			}
			strict := c.Op == term.OSlt
			if b.IsConst() {
				k := b.SVal()
				if !neg {
					if strict {
						k--
					}
					stight(a, -1<<63, k)
				} else {
					if !strict {
						k++
					}
					stight(a, k, 1<<63-1)
				}
			} else if a.IsConst() {
				k := a.SVal()
				if !neg {
					if strict {
						k++
					}
					stight(b, k, 1<<63-1)
				} else {
					if !strict {
						k--
					}
					stight(b, -1<<63, k)
				}
			} else if !neg {
				// a <= b (signed), both symbolic: when b is known non-negative and bounded, a inherits the bound
				half := uint64(1) << uint(a.W()-1)
				if rb := f.rangeOf(b); rb.hi < half {
					stight(a, -1<<63, int64(rb.hi))
				}
				if ra := f.rangeOf(a); ra.hi < half && ra.lo > 0 {
					stight(b, int64(ra.lo), 1<<63-1)
				}
				delete(f.memo, a.ID)
				delete(f.memo, b.ID)
			}
		case term.OEq:
			a, b := c.Args[0], c.Args[1]
			if neg || a.Sort.K != term.KBV {
				continue
			}
			if b.IsConst() {
				tight(a, b.Val, b.Val)
				f.restrict(a.ID, []uint64{b.Val})
			} else if a.IsConst() {
				tight(b, a.Val, a.Val)
				f.restrict(b.ID, []uint64{a.Val})
			}
		case term.OOr:
			if neg {
				continue
			}
			// a disjunction constrains a term when every disjunct does: take the union
			subs := make([]*facts, len(c.Args))
			for i, d := range c.Args {
				subs[i] = factsOf(d)
			}
			for id, r0 := range subs[0].r {
				u := r0
				ok := true
				for _, sf := range subs[1:] {
					r, has := sf.r[id]
					if !has {
						ok = false
						break
					}
					if r.lo < u.lo {
						u.lo = r.lo
					}
					if r.hi > u.hi {
						u.hi = r.hi
					}
				}
				if ok {
					tight(subs[0].getTerm(id), u.lo, u.hi)
				}
			}
			for id, v0 := range subs[0].vals {
				set := append([]uint64(nil), v0...)
				ok := true
				for _, sf := range subs[1:] {
					v, has := sf.vals[id]
					if !has {
						ok = false
						break
					}
					set = unionVals(set, v)
					if len(set) > 32 {
						ok = false
						break
					}
				}
				if ok {
					f.restrict(id, set)
				}
			}
		}
	}
	// disequalities trim a range at its ends (second pass: the ranges are known now)
	for _, c := range conj {
		if c.Op != term.ONot || c.Args[0].Op != term.OEq {
			continue
		}
		a, b := c.Args[0].Args[0], c.Args[0].Args[1]
		if a.IsConst() {
			a, b = b, a
		}
		if !b.IsConst() || a.Sort.K != term.KBV || a.W() > 64 {
			continue
		}
		r := f.rangeOf(a)
		delete(f.memo, a.ID)
		switch {
		case r.lo == r.hi:
		case b.Val == r.lo:
			tight(a, r.lo+1, r.hi)
		case b.Val == r.hi:
			tight(a, r.lo, r.hi-1)
		}
	}
	for id, s := range f.sb {
		if s.lo >= 0 && s.hi >= s.lo {
			cur, ok := f.getR(id)
			if !ok {
				cur = rng{0, wmask(s.w)}
			}
			if uint64(s.lo) > cur.lo {
				cur.lo = uint64(s.lo)
			}
			if uint64(s.hi) < cur.hi {
				cur.hi = uint64(s.hi)
			}
			f.r[id] = cur
			if cur.lo > cur.hi {
				f.empty = true
			}
		} else if s.hi < s.lo {
			f.empty = true
		}
	}
	// ranges computed while the facts were still being gathered may be stale
	f.memo = map[int]rng{}
	f.bm = map[int]int8{}
	f.smemo = nil
	return f
}

func unionVals(a, b []uint64) []uint64 {
	out := append([]uint64(nil), a...)
	for _, x := range b {
		found := false
		for _, y := range out {
			if x == y {
				found = true
				break
			}
		}
		if !found {
			out = append(out, x)
		}
	}
	return out
}

// restrict intersects the finite value set known for a term.
func (f *facts) restrict(id int, set []uint64) {
	cur, ok := f.getVals(id)
	if !ok {
		f.vals[id] = set
		return
	}
	var out []uint64
	for _, x := range cur {
		for _, y := range set {
			if x == y {
				out = append(out, x)
				break
			}
		}
	}
	f.vals[id] = out
	if len(out) == 0 {
		f.empty = true
	}
}

func (f *facts) rangeOf(t *term.Term) rng {
	if t.Sort.K != term.KBV || t.W() > 64 {
		return rng{0, ^uint64(0)}
	}
	if t.IsConst() {
		return rng{t.Val, t.Val}
	}
	if r, ok := f.memo[t.ID]; ok {
		return r
	}
	w := t.W()
	full := rng{0, wmask(w)}
	r := full
	arg := func(i int) rng { return f.rangeOf(t.Args[i]) }
	switch t.Op {
	case term.OZext:
		if t.Args[0].W() <= 64 {
			r = arg(0)
		}
	case term.OSext:
		if t.Args[0].W() <= 64 {
			a := arg(0)
			if a.hi < uint64(1)<<uint(t.Args[0].W()-1) {
				r = a
			}
		}
	case term.OExtract:
		if t.B == 0 && t.Args[0].W() <= 64 {
			a := arg(0)
			if a.hi <= wmask(w) {
				r = a
			}
		}
	case term.OAdd:
		a, b := arg(0), arg(1)
		if hi, c := bits.Add64(a.hi, b.hi, 0); c == 0 && hi <= wmask(w) {
			r = rng{a.lo + b.lo, hi}
		} else if t.Args[1].IsConst() {
			// x + (-k)
			k := (-t.Args[1].Val) & wmask(w)
			if k <= a.lo {
				r = rng{a.lo - k, a.hi - k}
			}
		}
	case term.OSub:
		a, b := arg(0), arg(1)
		if a.lo >= b.hi {
			r = rng{a.lo - b.hi, a.hi - b.lo}
		}
	case term.OMul:
		a, b := arg(0), arg(1)
		if hi, lo := bits.Mul64(a.hi, b.hi); hi == 0 && lo <= wmask(w) {
			r = rng{a.lo * b.lo, lo}
		}
	case term.OUDiv:
		a, b := arg(0), arg(1)
		if b.lo > 0 {
			r = rng{a.lo / b.hi, a.hi / b.lo}
		}
	case term.OURem:
		a, b := arg(0), arg(1)
		if b.lo > 0 {
			if a.hi < b.lo {
				r = a
			} else {
				r = rng{0, b.hi - 1}
			}
		}
	case term.OBAnd:
		a, b := arg(0), arg(1)
		m := a.hi
		if b.hi < m {
			m = b.hi
		}
		r = rng{0, m}
		// masking with a constant whose lowest set bit lies above everything the other side can hold
		if b.lo == b.hi && b.lo != 0 && a.hi < b.lo&-b.lo {
			r = rng{0, 0}
		}
		if a.lo == a.hi && a.lo != 0 && b.hi < a.lo&-a.lo {
			r = rng{0, 0}
		}
	case term.OBOr, term.OBXor:
		a, b := arg(0), arg(1)
		n := bits.Len64(a.hi | b.hi)
		r = rng{0, wmask(n)}
		if t.Op == term.OBOr {
			if a.lo > b.lo {
				r.lo = a.lo
			} else {
				r.lo = b.lo
			}
		}
	case term.OLShr:
		a, b := arg(0), arg(1)
		if b.lo == b.hi && b.lo < 64 {
			r = rng{a.lo >> b.lo, a.hi >> b.lo}
		} else {
			r = rng{0, a.hi}
		}
	case term.OShl:
		a, b := arg(0), arg(1)
		if b.lo == b.hi && b.lo < 64 && bits.Len64(a.hi)+int(b.lo) <= w {
			r = rng{a.lo << b.lo, a.hi << b.lo}
		}
	case term.OIte:
		switch f.decide(t.Args[0]) {
		case 1:
			r = arg(1)
		case 0:
			r = arg(2)
		default:
			a, b := arg(1), arg(2)
			r = a
			if b.lo < r.lo {
				r.lo = b.lo
			}
			if b.hi > r.hi {
				r.hi = b.hi
			}
		}
	}
	if fr, ok := f.getR(t.ID); ok {
		if fr.lo > r.lo {
			r.lo = fr.lo
		}
		if fr.hi < r.hi {
			r.hi = fr.hi
		}
		if r.lo > r.hi {
			f.empty = true
		}
	}
	f.memo[t.ID] = r
	return r
}

// eqConst decides t == k for a term built from nested if-then-else.
func (f *facts) eqConst(t *term.Term, k uint64, depth int) int8 {
	if t.Op == term.OIte && depth < 24 {
		switch f.decide(t.Args[0]) {
		case 1:
			return f.eqConst(t.Args[1], k, depth+1)
		case 0:
			return f.eqConst(t.Args[2], k, depth+1)
		}
		a, b := f.eqConst(t.Args[1], k, depth+1), f.eqConst(t.Args[2], k, depth+1)
		if a == b {
			return a
		}
		return -1
	}
	if t.IsConst() {
		if t.Val == k {
			return 1
		}
		return 0
	}
	r := f.rangeOf(t)
	if k < r.lo || k > r.hi {
		return 0
	}
	if r.lo == r.hi {
		return 1
	}
	return -1
}

// decide returns 1 (certainly true), 0 (certainly false) or -1.
func (f *facts) decide(t *term.Term) int8 {
	if t.IsConst() {
		return int8(t.Val)
	}
	if v, ok := f.bm[t.ID]; ok {
		return v
	}
	var r int8 = -1
	switch t.Op {
	case term.ONot:
		if d := f.decide(t.Args[0]); d >= 0 {
			r = 1 - d
		}
	case term.OAnd:
		r = 1
		for _, a := range t.Args {
			d := f.decide(a)
			if d == 0 {
				r = 0
				break
			}
			if d < 0 {
				r = -1
			}
		}
	case term.OOr:
		r = 0
		for _, a := range t.Args {
			d := f.decide(a)
			if d == 1 {
				r = 1
				break
			}
			if d < 0 {
				r = -1
			}
		}
	case term.OUlt, term.OUle, term.OSlt, term.OSle:
		if t.Args[0].W() > 64 {
			break
		}
		if t.Op == term.OSlt || t.Op == term.OSle {
			sa, oka := f.srangeOf(t.Args[0])
			sb2, okb := f.srangeOf(t.Args[1])
			if oka && okb {
				strict := t.Op == term.OSlt
				switch {
				case strict && sa.hi < sb2.lo, !strict && sa.hi <= sb2.lo:
					r = 1
				case strict && sa.lo >= sb2.hi, !strict && sa.lo > sb2.hi:
					r = 0
				}
				if r >= 0 {
					break
				}
			}
		}
		a, b := f.rangeOf(t.Args[0]), f.rangeOf(t.Args[1])
		w := t.Args[0].W()
		if t.Op == term.OSlt || t.Op == term.OSle {
			half := uint64(1) << uint(w-1)
			if a.hi >= half || b.hi >= half {
				break
			}
		}
		strict := t.Op == term.OUlt || t.Op == term.OSlt
		if strict {
			if a.hi < b.lo {
				r = 1
			} else if a.lo >= b.hi {
				r = 0
			}
		} else {
			if a.hi <= b.lo {
				r = 1
			} else if a.lo > b.hi {
				r = 0
			}
		}
	case term.OEq:
		if t.Args[0].Sort.K == term.KBV && t.Args[0].W() <= 64 {
			x, k := t.Args[0], t.Args[1]
			if x.IsConst() {
				x, k = k, x
			}
			if k.IsConst() && x.Op == term.OIte {
				// equality with a constant distributes over if-then-else (each branch may be decidable on its own)
				if d := f.eqConst(x, k.Val, 0); d >= 0 {
					r = d
					break
				}
			}
			if k.IsConst() {
				if set, ok := f.getVals(x.ID); ok {
					in := false
					for _, v := range set {
						if v == k.Val {
							in = true
						}
					}
					if !in {
						r = 0
						break
					}
					if len(set) == 1 {
						r = 1
						break
					}
				}
			}
			a, b := f.rangeOf(t.Args[0]), f.rangeOf(t.Args[1])
			if a.hi < b.lo || b.hi < a.lo {
				r = 0
			} else if a.lo == a.hi && b.lo == b.hi && a.lo == b.lo {
				r = 1
			}
		} else if t.Args[0].Sort.K == term.KBool {
			a, b := f.decide(t.Args[0]), f.decide(t.Args[1])
			if a >= 0 && b >= 0 {
				if a == b {
					r = 1
				} else {
					r = 0
				}
			}
		}
	case term.OIte:
		switch f.decide(t.Args[0]) {
		case 1:
			r = f.decide(t.Args[1])
		case 0:
			r = f.decide(t.Args[2])
		default:
			a, b := f.decide(t.Args[1]), f.decide(t.Args[2])
			if a == b {
				r = a
			}
		}
	}
	f.bm[t.ID] = r
	return r
}

// ---------- signed ranges ----------

// under returns the facts that hold when cond is assumed on top of f: cond's own conjuncts, and, for every
// two-way disjunction in the guard one of whose sides cond refutes, the other side (unit resolution). This is what
// a value merged as ite(c, x, y) needs: y's bounds were established on the ¬c path only.
func (f *facts) under(cond *term.Term) *facts {
	if f.depth > 60 || f.ctx >= 2 {
		return f
	}
	if f.sub == nil {
		f.sub = map[int]*facts{}
	}
	if g, ok := f.sub[cond.ID]; ok {
		return g
	}
	var extra []*term.Term
	add := func(t *term.Term) {
		if t.Op == term.OAnd {
			extra = append(extra, t.Args...)
		} else {
			extra = append(extra, t)
		}
	}
	add(cond)
	refuted := map[int]bool{}
	for _, c := range extra {
		refuted[term.Not(c).ID] = true
	}
	for _, c := range f.conj {
		if c.Op != term.OOr || len(c.Args) != 2 {
			continue
		}
		switch {
		case refuted[c.Args[0].ID]:
			add(c.Args[1])
		case refuted[c.Args[1].ID]:
			add(c.Args[0])
		}
	}
	g := newFacts(f, extra, f.conj)
	g.ctx = f.ctx + 1
	f.nsub++
	f.sub[cond.ID] = g
	return g
}

type srng struct{ lo, hi int64 }

func fitsSigned(v int64, w int) bool {
	if w >= 64 {
		return true
	}
	lim := int64(1) << uint(w-1)
	return v >= -lim && v < lim
}

func addOv(a, b int64) (int64, bool) {
	c := a + b
	if (c > a) == (b > 0) || b == 0 {
		return c, true
	}
	return 0, false
}

func mulOv(a, b int64) (int64, bool) {
	if a == 0 || b == 0 {
		return 0, true
	}
	c := a * b
	if c/b != a || (a == -1 && b == -1<<63) || (b == -1 && a == -1<<63) {
		return 0, false
	}
	return c, true
}

// srangeOf bounds t interpreted as a signed w-bit integer; ok=false when nothing useful is known.
func (f *facts) srangeOf(t *term.Term) (srng, bool) {
	if t.Sort.K != term.KBV || t.W() > 64 || t.W() < 2 {
		return srng{}, false
	}
	if t.IsConst() {
		v := t.SVal()
		return srng{v, v}, true
	}
	if f.smemo == nil {
		f.smemo = map[int]*srng{}
	}
	if r, ok := f.smemo[t.ID]; ok {
		if r == nil {
			return srng{}, false
		}
		return *r, true
	}
	f.smemo[t.ID] = nil // cycle/depth guard
	w := t.W()
	var r srng
	ok := false
	arg := func(i int) (srng, bool) { return f.srangeOf(t.Args[i]) }
	switch t.Op {
	case term.OAdd, term.OSub:
		a, oka := arg(0)
		b, okb := arg(1)
		if oka && okb {
			if t.Op == term.OSub {
				b = srng{-b.hi, -b.lo}
				if b.lo == -1<<63 || b.hi == -1<<63 {
					break
				}
			}
			lo, o1 := addOv(a.lo, b.lo)
			hi, o2 := addOv(a.hi, b.hi)
			if o1 && o2 && fitsSigned(lo, w) && fitsSigned(hi, w) {
				r, ok = srng{lo, hi}, true
			}
		}
	case term.OMul:
		a, oka := arg(0)
		b, okb := arg(1)
		if oka && okb {
			vals := [4]int64{}
			good := true
			for i, p := range [4][2]int64{{a.lo, b.lo}, {a.lo, b.hi}, {a.hi, b.lo}, {a.hi, b.hi}} {
				v, o := mulOv(p[0], p[1])
				if !o || !fitsSigned(v, w) {
					good = false
				}
				vals[i] = v
			}
			if good {
				lo, hi := vals[0], vals[0]
				for _, v := range vals[1:] {
					if v < lo {
						lo = v
					}
					if v > hi {
						hi = v
					}
				}
				r, ok = srng{lo, hi}, true
			}
		}
	case term.ONeg:
		if a, oka := arg(0); oka && a.lo != -1<<63 && fitsSigned(-a.lo, w) && fitsSigned(-a.hi, w) {
			r, ok = srng{-a.hi, -a.lo}, true
		}
	case term.OSDiv:
		a, oka := arg(0)
		if b := t.Args[1]; oka && b.IsConst() && b.SVal() > 0 {
			c := b.SVal()
			r, ok = srng{a.lo / c, a.hi / c}, true
		}
	case term.OSRem:
		a, oka := arg(0)
		if b := t.Args[1]; b.IsConst() && b.SVal() > 0 {
			c := b.SVal()
			switch {
			case oka && a.lo >= 0 && a.hi < c:
				r, ok = a, true
			case oka && a.lo >= 0:
				r, ok = srng{0, c - 1}, true
			default:
				r, ok = srng{-(c - 1), c - 1}, true
			}
		}
	case term.OUDiv, term.OURem:
		a, oka := arg(0)
		if b := t.Args[1]; oka && a.lo >= 0 && b.IsConst() && b.SVal() > 0 {
			c := b.SVal()
			if t.Op == term.OUDiv {
				r, ok = srng{a.lo / c, a.hi / c}, true
			} else if a.hi < c {
				r, ok = a, true
			} else {
				r, ok = srng{0, c - 1}, true
			}
		}
	case term.OIte:
		switch f.decide(t.Args[0]) {
		case 1:
			r, ok = arg(1)
		case 0:
			r, ok = arg(2)
		default:
			// each arm is bounded under the branch condition it is selected by
			a, oka := arg(1)
			b, okb := arg(2)
			if !oka && f.nsub < 8 {
				a, oka = f.under(t.Args[0]).srangeOf(t.Args[1])
			}
			if !okb && f.nsub < 8 {
				b, okb = f.under(term.Not(t.Args[0])).srangeOf(t.Args[2])
			}
			if oka && okb {
				r, ok = a, true
				if b.lo < r.lo {
					r.lo = b.lo
				}
				if b.hi > r.hi {
					r.hi = b.hi
				}
			}
		}
	case term.OSext:
		r, ok = arg(0)
	case term.OZext:
		if t.Args[0].W() <= 63 {
			u := f.rangeOf(t.Args[0])
			r, ok = srng{int64(u.lo), int64(u.hi)}, true
		}
	case term.OExtract:
		if t.B == 0 {
			if a, oka := arg(0); oka && fitsSigned(a.lo, w) && fitsSigned(a.hi, w) {
				r, ok = a, true
			}
		}
	}
	// facts: explicit signed bounds, and unsigned ranges that stay below the sign bit
	if s, has := f.getS(t.ID); has {
		if !ok {
			lim := int64(1)<<uint(w-1) - 1
			if w >= 64 {
				lim = 1<<63 - 1
			}
			r, ok = srng{-lim - 1, lim}, true
		}
		if s.lo > r.lo {
			r.lo = s.lo
		}
		if s.hi < r.hi {
			r.hi = s.hi
		}
	}
	if u, has := f.getR(t.ID); has && u.hi < uint64(1)<<uint(w-1) {
		if !ok {
			r, ok = srng{int64(u.lo), int64(u.hi)}, true
		} else {
			if int64(u.lo) > r.lo {
				r.lo = int64(u.lo)
			}
			if int64(u.hi) < r.hi {
				r.hi = int64(u.hi)
			}
		}
	}
	if ok {
		rr := r
		f.smemo[t.ID] = &rr
	}
	return r, ok
}

// linDecomp writes a 64-bit term as sign*base + off (mod 2^64), peeling constant additions, subtractions from
// constants and negations.
func linDecomp(t *term.Term) (sign int64, base *term.Term, off uint64) {
	switch t.Op {
	case term.OAdd:
		for i := 0; i < 2; i++ {
			if k := t.Args[i]; k.IsConst() {
				s, b, o := linDecomp(t.Args[1-i])
				return s, b, o + k.Val
			}
		}
	case term.OSub:
		if k := t.Args[1]; k.IsConst() {
			s, b, o := linDecomp(t.Args[0])
			return s, b, o - k.Val
		}
		if c := t.Args[0]; c.IsConst() {
			s, b, o := linDecomp(t.Args[1])
			return -s, b, c.Val - o
		}
	case term.ONeg:
		s, b, o := linDecomp(t.Args[0])
		return -s, b, -o
	}
	return 1, t, 0
}

// srangeLin is srangeOf sharpened by the signed bounds the guard states for any term with the same linear base:
// a conjunct `lo <= X - c <= hi` also bounds `c' - X` and `(X + k) * 24`. Used by the time stubs and the float cut.
func (f *facts) srangeLin(t *term.Term) (srng, bool) {
	if t.Sort.K != term.KBV || t.W() != 64 {
		return f.srangeOf(t)
	}
	if t.Op == term.OMul {
		for i := 0; i < 2; i++ {
			if k := t.Args[i]; k.IsConst() && k.SVal() > 0 {
				if a, ok := f.srangeLin(t.Args[1-i]); ok {
					lo, o1 := mulOv(a.lo, k.SVal())
					hi, o2 := mulOv(a.hi, k.SVal())
					if o1 && o2 {
						return srng{lo, hi}, true
					}
				}
			}
		}
		return f.srangeOf(t)
	}
	r, ok := f.srangeOf(t)
	s2, b2, o2 := linDecomp(t)
	seen := map[int]bool{}
	for x := f; x != nil; x = x.parent {
		for id := range x.sb {
			if seen[id] {
				continue
			}
			seen[id] = true
			u := x.terms[id]
			if u == nil || u.W() != 64 {
				continue
			}
			s1, b1, o1 := linDecomp(u)
			if b1 != b2 {
				continue
			}
			sb, _ := f.getS(id)
			var lo, hi int64
			var g1, g2 bool
			if s1 == s2 { // t = u + (o2 - o1)
				d := int64(o2 - o1)
				lo, hi, g1, g2 = -1<<63, 1<<63-1, true, true
				if sb.lo != -1<<63 {
					lo, g1 = addOv(sb.lo, d)
				}
				if sb.hi != 1<<63-1 {
					hi, g2 = addOv(sb.hi, d)
				}
			} else { // t = -u + (o2 + o1); an open end of u stays open
				e := int64(o2 + o1)
				lo, hi, g1, g2 = -1<<63, 1<<63-1, true, true
				if sb.hi != 1<<63-1 {
					lo, g1 = addOv(-sb.hi, e)
				}
				if sb.lo != -1<<63 {
					hi, g2 = addOv(-sb.lo, e)
				}
			}
			if !g1 || !g2 {
				continue
			}
			if !ok {
				r, ok = srng{lo, hi}, true
				continue
			}
			if lo > r.lo {
				r.lo = lo
			}
			if hi < r.hi {
				r.hi = hi
			}
		}
	}
	return r, ok
}
