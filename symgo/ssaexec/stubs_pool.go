package ssaexec

import (
	"fmt"

	"symgo/term"
)

// sync.Pool, as documented: Get returns an arbitrary item that was Put before (removing it) or, when it chooses
// to, the result of New (nil without New); Put may keep the item or drop it. The model keeps at most the last item
// put (dropping older ones is a behaviour the documentation allows) in the unused `victim` field of the Pool
// object, and Get explores both documented outcomes: the kept item (the scheduler's arbitrary choice, a fresh
// boolean input) and New(). Every path of the model is a behaviour the real Pool can show.
const poolSlot = 3 // field index of `victim` in sync.Pool{noCopy, local, localSize, victim, victimSize, New}

func init() {
	Stubs["(*sync.Pool).Put"] = func(ex *Exec, c *CallCtx) []*callResult {
		p := c.Args[0].(PtrV)
		x := c.Args[1].(IfaceV)
		if x.T == nil {
			return c.ret(nil)
		}
		c.St.H.Store(p.Sub(poolSlot), x)
		return c.ret(nil)
	}
	Stubs["(*sync.Pool).Get"] = func(ex *Exec, c *CallCtx) []*callResult {
		p := c.Args[0].(PtrV)
		pool := c.St.H.Load(p).(*StructV)
		var out []*callResult
		st := c.St
		if kept, ok := pool.F[poolSlot].(IfaceV); ok && kept.T != nil {
			ex.tryN++
			b := ex.input(fmt.Sprintf("poolreuse%d", ex.tryN), term.BoolSort, "sync.Pool.Get hands back the item put last")
			reuse := st.fork(b)
			ex.Forks++
			reuse.H.Store(p.Sub(poolSlot), PtrV{})
			out = append(out, resultIn(reuse, kept))
			st.G = term.And(st.G, term.Not(b))
		}
		newFn, _ := pool.F[5].(FuncV)
		if newFn.Fn == nil && newFn.Builtin == "" {
			return append(out, resultIn(st, IfaceV{}))
		}
		return append(out, ex.callValue(c.Fr, st, newFn, nil, nil, c.Site)...)
	}
}
