package ssaexec

import (
	"fmt"
	"go/constant"
	"go/token"
	"go/types"
	"os"
	"sort"
	"strings"
	"time"

	"golang.org/x/tools/go/ssa"

	"symgo/solver"
	"symgo/term"
)

// Abort is raised (as a Go panic) for conditions that make the run inconclusive.
type Abort struct {
	Kind string // UNSUPPORTED-CALL, UNSUPPORTED, UNWIND-INCOMPLETE, BUDGET
	Msg  string
}

func (a *Abort) Error() string { return a.Kind + " " + a.Msg }

func abort(kind, f string, a ...interface{}) { panic(&Abort{Kind: kind, Msg: fmt.Sprintf(f, a...)}) }

type PanicInfo struct {
	Val     Value
	Site    string
	Runtime bool
}

type panicEntry struct {
	info      *PanicInfo
	recovered bool
}

type deferred struct {
	fn     Value // FuncV, or IfaceV for invoke
	method *types.Func
	args   []Value
}

// FrameState is the per-activation part of a state.
type FrameState struct {
	Env    map[ssa.Value]Value
	Defers []deferred
	Unroll map[*ssa.BasicBlock]int
}

func (f *FrameState) clone() *FrameState {
	n := &FrameState{Env: make(map[ssa.Value]Value, len(f.Env)+8)}
	for k, v := range f.Env {
		n.Env[k] = v
	}
	n.Defers = append([]deferred(nil), f.Defers...)
	if len(f.Unroll) > 0 {
		n.Unroll = make(map[*ssa.BasicBlock]int, len(f.Unroll))
		for k, v := range f.Unroll {
			n.Unroll[k] = v
		}
	}
	return n
}

type State struct {
	G      *term.Term
	H      *Heap
	F      *FrameState
	Panics []panicEntry
	fG     *term.Term // guard for which fF was computed
	fF     *facts
}

func (s *State) fork(cond *term.Term) *State {
	s.facts()
	return &State{G: term.And(s.G, cond), H: s.H.Fork(), F: s.F.clone(), Panics: append([]panicEntry(nil), s.Panics...), fG: s.fG, fF: s.fF}
}

// facts returns the interval facts of the current guard, derived incrementally from the last guard seen.
func (s *State) facts() *facts {
	if s.fF != nil && s.fG == s.G {
		return s.fF
	}
	s.fF = factsExtend(s.fG, s.fF, s.G)
	s.fG = s.G
	return s.fF
}

type Outcome struct {
	G      *term.Term
	H      *Heap
	Ret    Value
	Panic  *PanicInfo
	Panics []panicEntry
}

// Event is a synchronisation-relevant action recorded by stubs (C19).
type Event struct {
	Kind  string // lock | unlock | trylock | access | read | write | newgen | draw
	Obj   string
	Site  string
	Seed  *term.Term // newgen/draw: the seed of the generator (nil when unknown)
	Guard *term.Term // draw: the path guard at the draw
}

type VC struct {
	Label string
	Guard *term.Term
	Cond  *term.Term
	Kind  string // assert | reach | panic
	Site  string
}

type frame struct {
	fn    *ssa.Function
	bind  []Value
	outs  []*Outcome
	ipd   map[*ssa.BasicBlock]*ssa.BasicBlock
	loops map[*ssa.BasicBlock]bool
	base  int
	depth int
}

type Exec struct {
	Prog                *ssa.Program
	ModulePath          string
	Globals             map[*ssa.Global]int
	ExtGlobals          map[string]int
	VCs                 []*VC
	Known               map[string]*term.Term
	KnownOrder          []string
	Inputs              []*term.Term
	InputKinds          map[string]string
	Concrete            term.Model // non-nil: v* primitives return these constants
	Inc                 *solver.Proc
	UseSolver           bool
	RecordGlobals       bool // record reads/writes of package-level variables as events (C19)
	PruneCalls          bool // solver-check every outcome returned to the harness function
	KeepHarnessOutcomes bool
	cutLemmas           map[string]bool
	NoOutcomeMerge      bool
	MaxUnroll           int
	MaxStates           int

	liveCache   map[*ssa.Function]map[*ssa.BasicBlock]map[ssa.Value]bool
	ipdCache    map[*ssa.Function]map[*ssa.BasicBlock]*ssa.BasicBlock
	loopCache   map[*ssa.Function]map[*ssa.BasicBlock]bool
	FnInstrs    map[string]int // instructions interpreted per function
	Steps       int64
	TotalSteps  int64
	StubsTotal  map[string]int
	MaxSteps    int64
	Forks       int
	Merges      int
	EndStates   int
	StubsUsed   map[string]int
	fresh       int
	Defs        []*term.Term // definitional constraints of fresh witness variables (always conjoined)
	RawOutcomes int
	digitMemo   map[string]witnessDigits
	ymdMemo     map[int]ymdWitness
	Events      []Event
	randN       int
	tryN        int
	Trace       bool
	FeasQ       int
	FeasSecs    float64
	FeasUnknown int
	feasQ0      int
	feasS0      float64
	Deadline    time.Time
	initHeap    *Heap
}

func NewExec(prog *ssa.Program, module string) *Exec {
	return &Exec{
		Prog: prog, ModulePath: module,
		Globals: map[*ssa.Global]int{}, ExtGlobals: map[string]int{},
		Known: map[string]*term.Term{}, InputKinds: map[string]string{},
		MaxUnroll: 64, MaxStates: 4000, KeepHarnessOutcomes: true, MaxSteps: 50_000_000,
		ipdCache:  map[*ssa.Function]map[*ssa.BasicBlock]*ssa.BasicBlock{},
		loopCache: map[*ssa.Function]map[*ssa.BasicBlock]bool{},
		FnInstrs:  map[string]int{}, StubsUsed: map[string]int{}, StubsTotal: map[string]int{},
	}
}

func (ex *Exec) Fresh(prefix string, s term.Sort) *term.Term {
	ex.fresh++
	return term.Var(fmt.Sprintf("$%s%d", prefix, ex.fresh), s)
}

// ---------- feasibility ----------

// feasible reports whether guard g may be satisfiable (false only when certainly unsatisfiable).
func (ex *Exec) feasible(g *term.Term, useSolver bool) bool {
	if g.IsFalse() {
		return false
	}
	if g.IsTrue() {
		return true
	}
	if f := factsOf(g); !f.consistent() || f.decide(g) == 0 {
		return false
	}
	return ex.solverFeasible(g, useSolver)
}

// feasibleWith reports whether cond may hold together with guard g, deciding cond under g's facts first.
func (ex *Exec) feasibleWith(g, cond *term.Term, useSolver bool) bool {
	if cond.IsFalse() || g.IsFalse() {
		return false
	}
	switch factsOf(g).decide(cond) {
	case 0:
		return false
	case 1:
		return true
	}
	if cond.Op == term.OAnd {
		f := factsOf(g)
		for _, c := range cond.Args {
			if f.decide(c) == 0 {
				return false
			}
		}
	}
	// facts contributed by cond itself (e.g. a range for a value computed by a shift)
	if f := factsOf(cond); !f.consistent() {
		return false
	}
	return ex.solverFeasible(term.And(g, cond), useSolver)
}

// feasibleSt is feasibleWith on a state's guard, using the state's incremental facts.
func (ex *Exec) feasibleSt(st *State, cond *term.Term, useSolver bool) bool {
	if cond.IsFalse() || st.G.IsFalse() {
		return false
	}
	f := st.facts()
	switch f.decide(cond) {
	case 0:
		return false
	case 1:
		return true
	}
	if cond.Op == term.OAnd {
		for _, c := range cond.Args {
			if f.decide(c) == 0 {
				return false
			}
		}
	}
	if cf := factsOf(cond); !cf.consistent() {
		return false
	}
	return ex.solverFeasible(term.And(st.G, cond), useSolver)
}

// slowFeasibility reports that pruning queries have become expensive in this run (they only save work; a branch
// that is not pruned is still decided at verification-condition time).
func (ex *Exec) slowFeasibility() bool {
	n := ex.FeasQ - ex.feasQ0
	return n >= 20 && (ex.FeasSecs-ex.feasS0)/float64(n) > 0.25
}

func (ex *Exec) solverFeasible(g *term.Term, useSolver bool) bool {
	if useSolver && ex.UseSolver && ex.Inc != nil {
		ex.FeasQ++
		t0 := time.Now()
		a := ex.Inc.Check(ex.withDefs(g), nil, 2*time.Second)
		ex.FeasSecs += time.Since(t0).Seconds()
		if a.Res == solver.Unknown {
			ex.FeasUnknown++
		}
		if a.Res == solver.Unsat {
			return false
		}
	}
	return true
}

func (ex *Exec) withDefs(g *term.Term) []*term.Term {
	// only the definitions whose variables occur in g matter, but all are harmless
	out := []*term.Term{g}
	if len(ex.Defs) == 0 {
		return out
	}
	used := map[string]bool{}
	for _, v := range term.Vars(g) {
		used[v.Name] = true
	}
	changed := true
	taken := make([]bool, len(ex.Defs))
	for changed {
		changed = false
		for i, d := range ex.Defs {
			if taken[i] {
				continue
			}
			vs := term.Vars(d)
			hit := false
			for _, v := range vs {
				if used[v.Name] {
					hit = true
					break
				}
			}
			if hit {
				taken[i] = true
				changed = true
				out = append(out, d)
				for _, v := range vs {
					used[v.Name] = true
				}
			}
		}
	}
	return out
}

// decideCond tries to decide a condition under the state's guard without a solver.
func (ex *Exec) decideCond(st *State, c *term.Term) int8 {
	if c.IsConst() {
		return int8(c.Val)
	}
	return st.facts().decide(c)
}

// concreteInt tries to obtain a concrete integer for t under st.G.
func (ex *Exec) concreteInt(st *State, t *term.Term, signed bool) (int, bool) {
	if t.IsConst() {
		if signed {
			return int(t.SVal()), true
		}
		return int(t.Val), true
	}
	r := st.facts().rangeOf(t)
	if r.lo == r.hi {
		return int(r.lo), true
	}
	return 0, false
}

// ---------- post-dominators ----------

func (ex *Exec) analysis(fn *ssa.Function) (map[*ssa.BasicBlock]*ssa.BasicBlock, map[*ssa.BasicBlock]bool) {
	if m, ok := ex.ipdCache[fn]; ok {
		return m, ex.loopCache[fn]
	}
	n := len(fn.Blocks)
	// node n = virtual exit
	succ := make([][]int, n+1)
	pred := make([][]int, n+1)
	for _, b := range fn.Blocks {
		if len(b.Succs) == 0 {
			succ[b.Index] = []int{n}
			pred[n] = append(pred[n], b.Index)
		}
		for _, s := range b.Succs {
			succ[b.Index] = append(succ[b.Index], s.Index)
			pred[s.Index] = append(pred[s.Index], b.Index)
		}
	}
	// reverse post-order on the reverse graph from exit
	order := []int{}
	seen := make([]bool, n+1)
	var dfs func(int)
	dfs = func(u int) {
		seen[u] = true
		for _, p := range pred[u] {
			if !seen[p] {
				dfs(p)
			}
		}
		order = append(order, u)
	}
	dfs(n)
	// blocks that cannot reach exit (infinite loops) are attached to exit to stay total
	for i := 0; i < n; i++ {
		if !seen[i] {
			succ[i] = append(succ[i], n)
			pred[n] = append(pred[n], i)
		}
	}
	if len(order) != n+1 {
		order = order[:0]
		seen = make([]bool, n+1)
		dfs(n)
	}
	rpo := make([]int, len(order))
	num := make([]int, n+1)
	for i := range order {
		rpo[i] = order[len(order)-1-i]
	}
	for i, u := range rpo {
		num[u] = i
	}
	idom := make([]int, n+1)
	for i := range idom {
		idom[i] = -1
	}
	idom[n] = n
	intersect := func(a, b int) int {
		for a != b {
			for num[a] > num[b] {
				a = idom[a]
			}
			for num[b] > num[a] {
				b = idom[b]
			}
		}
		return a
	}
	for changed := true; changed; {
		changed = false
		for _, u := range rpo {
			if u == n {
				continue
			}
			ni := -1
			for _, s := range succ[u] {
				if idom[s] == -1 {
					continue
				}
				if ni == -1 {
					ni = s
				} else {
					ni = intersect(ni, s)
				}
			}
			if ni != -1 && idom[u] != ni {
				idom[u] = ni
				changed = true
			}
		}
	}
	m := map[*ssa.BasicBlock]*ssa.BasicBlock{}
	for _, b := range fn.Blocks {
		if d := idom[b.Index]; d >= 0 && d < n {
			m[b] = fn.Blocks[d]
		} else {
			m[b] = nil
		}
	}
	loops := map[*ssa.BasicBlock]bool{}
	for _, b := range fn.Blocks {
		for _, p := range b.Preds {
			if b.Dominates(p) {
				loops[b] = true
			}
		}
	}
	ex.ipdCache[fn] = m
	ex.loopCache[fn] = loops
	return m, loops
}

// ---------- liveness ----------

func trackable(v ssa.Value) bool {
	switch v.(type) {
	case *ssa.Const, *ssa.Global, *ssa.Function, *ssa.Builtin:
		return false
	}
	return v != nil
}

// liveIn computes, per block, the SSA values live on entry (phi results of the block included).
func (ex *Exec) liveIn(fn *ssa.Function) map[*ssa.BasicBlock]map[ssa.Value]bool {
	if m, ok := ex.liveCache[fn]; ok {
		return m
	}
	n := len(fn.Blocks)
	use := make([]map[ssa.Value]bool, n)
	def := make([]map[ssa.Value]bool, n)
	phiUse := make([]map[*ssa.BasicBlock]map[ssa.Value]bool, n) // block -> pred -> values used by phis on that edge
	var ops []*ssa.Value
	for _, b := range fn.Blocks {
		u, d := map[ssa.Value]bool{}, map[ssa.Value]bool{}
		pu := map[*ssa.BasicBlock]map[ssa.Value]bool{}
		for _, ins := range b.Instrs {
			if phi, ok := ins.(*ssa.Phi); ok {
				d[phi] = true
				for i, e := range phi.Edges {
					if trackable(e) {
						p := b.Preds[i]
						if pu[p] == nil {
							pu[p] = map[ssa.Value]bool{}
						}
						pu[p][e] = true
					}
				}
				continue
			}
			ops = ins.Operands(ops[:0])
			for _, o := range ops {
				if o != nil && *o != nil && trackable(*o) && !d[*o] {
					u[*o] = true
				}
			}
			if v, ok := ins.(ssa.Value); ok {
				d[v] = true
			}
		}
		use[b.Index], def[b.Index], phiUse[b.Index] = u, d, pu
	}
	in := make([]map[ssa.Value]bool, n)
	for i := range in {
		in[i] = map[ssa.Value]bool{}
		for v := range use[i] {
			in[i][v] = true
		}
	}
	for changed := true; changed; {
		changed = false
		for i := n - 1; i >= 0; i-- {
			b := fn.Blocks[i]
			for _, s := range b.Succs {
				add := func(v ssa.Value) {
					if !def[i][v] && !in[i][v] {
						in[i][v] = true
						changed = true
					}
				}
				for v := range in[s.Index] {
					if _, isPhi := v.(*ssa.Phi); isPhi && def[s.Index][v] {
						continue
					}
					add(v)
				}
				for v := range phiUse[s.Index][b] {
					add(v)
				}
			}
		}
	}
	m := map[*ssa.BasicBlock]map[ssa.Value]bool{}
	for _, b := range fn.Blocks {
		l := in[b.Index]
		for _, ins := range b.Instrs {
			if phi, ok := ins.(*ssa.Phi); ok {
				l[phi] = true
			} else {
				break
			}
		}
		m[b] = l
	}
	if ex.liveCache == nil {
		ex.liveCache = map[*ssa.Function]map[*ssa.BasicBlock]map[ssa.Value]bool{}
	}
	ex.liveCache[fn] = m
	return m
}

// ---------- value lookup ----------

func (ex *Exec) constValue(c *ssa.Const) Value {
	t := c.Type()
	if c.Value == nil {
		return Zero(t)
	}
	switch u := t.Underlying().(type) {
	case *types.Basic:
		switch {
		case u.Info()&types.IsBoolean != 0:
			return term.Bool(constant.BoolVal(c.Value))
		case u.Info()&types.IsString != 0:
			return Str(constant.StringVal(c.Value))
		case u.Info()&types.IsInteger != 0:
			w := basicWidth(u)
			if v, ok := constant.Uint64Val(constant.ToInt(c.Value)); ok {
				return term.Const(w, v)
			}
			v, _ := constant.Int64Val(constant.ToInt(c.Value))
			return term.Const(w, uint64(v))
		case u.Info()&types.IsFloat != 0:
			f, _ := constant.Float64Val(c.Value)
			if basicWidth(u) == 32 {
				return term.FPConst32(float32(f))
			}
			return term.FPConst64(f)
		}
	}
	abort("UNSUPPORTED", "constant %v of type %v", c, t)
	return nil
}

func (ex *Exec) globalObj(st *State, g *ssa.Global) int {
	if id, ok := ex.Globals[g]; ok {
		if !st.H.Has(id) {
			// created lazily in another state: re-create with the zero value
			st.H.own()
			st.H.objs[id] = &Obj{V: ex.zeroGlobal(st, g), owner: st.H.owner}
		}
		return id
	}
	v := ex.zeroGlobal(st, g)
	id := st.H.Alloc(v)
	ex.Globals[g] = id
	return id
}

func (ex *Exec) zeroGlobal(st *State, g *ssa.Global) Value {
	elem := g.Type().(*types.Pointer).Elem()
	if v, ok := ex.extGlobalInit(st, g); ok {
		return v
	}
	return Zero(elem)
}

func (ex *Exec) get(fr *frame, st *State, v ssa.Value) Value {
	switch x := v.(type) {
	case *ssa.Const:
		return ex.constValue(x)
	case *ssa.Global:
		return PtrV{Obj: ex.globalObj(st, x)}
	case *ssa.Function:
		return FuncV{Fn: x}
	case *ssa.Builtin:
		return FuncV{Builtin: x.Name()}
	case *ssa.FreeVar:
		for i, fv := range fr.fn.FreeVars {
			if fv == x {
				return fr.bind[i]
			}
		}
	}
	if val, ok := st.F.Env[v]; ok {
		return val
	}
	abort("UNSUPPORTED", "no value for %s (%T) in %s", v.Name(), v, fr.fn)
	return nil
}

// ---------- running a function ----------

type callResult struct {
	G      *term.Term
	H      *Heap
	Ret    Value
	Panic  *PanicInfo
	Panics []panicEntry
}

func (ex *Exec) inModule(fn *ssa.Function) bool {
	f := fn
	if f.Origin() != nil {
		f = f.Origin()
	}
	for f.Parent() != nil {
		f = f.Parent()
		if f.Origin() != nil {
			f = f.Origin()
		}
	}
	if f.Pkg != nil {
		p := f.Pkg.Pkg.Path()
		return p == ex.ModulePath || strings.HasPrefix(p, ex.ModulePath+"/")
	}
	if o := f.Object(); o != nil && o.Pkg() != nil {
		p := o.Pkg().Path()
		return p == ex.ModulePath || strings.HasPrefix(p, ex.ModulePath+"/")
	}
	return false
}

// CallFunction executes fn with args in the given guard/heap and returns merged outcomes.
func (ex *Exec) CallFunction(fn *ssa.Function, bind []Value, args []Value, g *term.Term, h *Heap, panics []panicEntry, depth int) []*callResult {
	if depth > 200 {
		abort("BUDGET", "call depth exceeded at %s", fn)
	}
	if fn.Blocks == nil {
		abort("UNSUPPORTED-CALL", "%s (no body)", fn)
	}
	ipd, loops := ex.analysis(fn)
	fr := &frame{fn: fn, bind: bind, ipd: ipd, loops: loops, base: nextObj - 1, depth: depth}
	st := &State{G: g, H: h, F: &FrameState{Env: map[ssa.Value]Value{}}, Panics: panics}
	if len(args) != len(fn.Params) {
		abort("UNSUPPORTED", "arity mismatch calling %s: %d args for %d params", fn, len(args), len(fn.Params))
	}
	for i, p := range fn.Params {
		st.F.Env[p] = args[i]
	}
	ex.runAt(fr, st, fn.Blocks[0], 0, nil)
	if depth == 0 {
		ex.RawOutcomes += len(fr.outs)
	}
	outs := fr.outs
	if ex.NoOutcomeMerge {
		// the harness asked for full shape precision: every return path of every call stays a state of its own
	} else if depth != 1 || !ex.KeepHarnessOutcomes {
		// outcomes returned directly to the harness function stay separate: each keeps its precise path facts
		// (digit counts, table indices), which the harness oracles need; deeper frames merge by shape
		outs = ex.mergeOutcomes(fr, fr.outs)
	}
	res := make([]*callResult, len(outs))
	for i, o := range outs {
		res[i] = &callResult{G: o.G, H: o.H, Ret: o.Ret, Panic: o.Panic, Panics: o.Panics}
	}
	return res
}

func (ex *Exec) edge(fr *frame, st *State, from, to *ssa.BasicBlock) {
	if len(to.Instrs) == 0 {
		return
	}
	if _, ok := to.Instrs[0].(*ssa.Phi); !ok {
		return
	}
	idx := -1
	for i, p := range to.Preds {
		if p == from {
			idx = i
			break
		}
	}
	if idx < 0 {
		abort("UNSUPPORTED", "edge %d->%d not found in %s", from.Index, to.Index, fr.fn)
	}
	var phis []*ssa.Phi
	var vals []Value
	for _, ins := range to.Instrs {
		phi, ok := ins.(*ssa.Phi)
		if !ok {
			break
		}
		phis = append(phis, phi)
		vals = append(vals, ex.get(fr, st, phi.Edges[idx]))
	}
	for i, phi := range phis {
		st.F.Env[phi] = vals[i]
	}
}

func (ex *Exec) record(fr *frame, st *State, ret Value, p *PanicInfo) {
	fr.outs = append(fr.outs, &Outcome{G: st.G, H: st.H, Ret: ret, Panic: p, Panics: st.Panics})
}

// raise handles a panic in the current frame: deferred calls run, recover may turn it into a normal return.
func (ex *Exec) raise(fr *frame, st *State, p *PanicInfo) {
	if len(st.F.Defers) == 0 {
		ex.record(fr, st, nil, p)
		return
	}
	st.Panics = append(append([]panicEntry(nil), st.Panics...), panicEntry{info: p})
	for _, s := range ex.runDefers(fr, st) {
		top := s.Panics[len(s.Panics)-1]
		s.Panics = s.Panics[:len(s.Panics)-1]
		if top.info == nil {
			// a deferred call panicked itself; that panic replaced this one and was already recorded
			continue
		}
		if top.recovered {
			if fr.fn.Recover != nil {
				ex.runAt(fr, s, fr.fn.Recover, 0, nil)
			} else {
				ex.record(fr, s, ex.zeroResults(fr.fn), nil)
			}
		} else {
			ex.record(fr, s, nil, top.info)
		}
	}
}

func (ex *Exec) zeroResults(fn *ssa.Function) Value {
	res := fn.Signature.Results()
	switch res.Len() {
	case 0:
		return nil
	case 1:
		return Zero(res.At(0).Type())
	}
	return Zero(res)
}

func (ex *Exec) runDefers(fr *frame, st *State) []*State {
	states := []*State{st}
	for {
		var next []*State
		progressed := false
		for _, s := range states {
			n := len(s.F.Defers)
			if n == 0 {
				next = append(next, s)
				continue
			}
			progressed = true
			d := s.F.Defers[n-1]
			s.F.Defers = s.F.Defers[:n-1]
			for _, r := range ex.callValue(fr, s, d.fn, d.method, d.args, nil) {
				ns := &State{G: r.G, H: r.H, F: s.F.clone(), Panics: r.Panics}
				if r.Panic != nil {
					// a panic inside a deferred call replaces the current one
					if len(ns.Panics) > 0 && ns.Panics[len(ns.Panics)-1].info != nil {
						ns.Panics = append([]panicEntry(nil), ns.Panics...)
						ns.Panics[len(ns.Panics)-1] = panicEntry{info: r.Panic}
						next = append(next, ns)
					} else {
						ns.F.Defers = nil
						ex.record(fr, ns, nil, r.Panic)
					}
					continue
				}
				next = append(next, ns)
			}
		}
		states = next
		if !progressed {
			return states
		}
	}
}

func (ex *Exec) checkBudget() {
	ex.Steps++
	ex.TotalSteps++
	if ex.Steps > ex.MaxSteps {
		abort("BUDGET", "step budget %d exceeded", ex.MaxSteps)
	}
	if ex.Steps&0xfff == 0 && !ex.Deadline.IsZero() && time.Now().After(ex.Deadline) {
		abort("BUDGET", "executor deadline exceeded")
	}
}

// runAt executes from instruction idx of block b until the state reaches block stop (exclusive) or terminates.
func (ex *Exec) runAt(fr *frame, st *State, b *ssa.BasicBlock, idx int, stop *ssa.BasicBlock) []*State {
	for {
		if b == stop && idx == 0 {
			return []*State{st}
		}
		var next *ssa.BasicBlock
		for i := idx; i < len(b.Instrs); i++ {
			ins := b.Instrs[i]
			if st.G.IsFalse() {
				return nil // the path condition collapsed: nothing can reach here
			}
			ex.checkBudget()
			ex.FnInstrs[fr.fn.String()]++
			switch x := ins.(type) {
			case *ssa.Phi, *ssa.DebugRef:
				continue
			case *ssa.Jump:
				next = b.Succs[0]
			case *ssa.Return:
				var ret Value
				switch len(x.Results) {
				case 0:
				case 1:
					ret = ex.get(fr, st, x.Results[0])
				default:
					tv := make(TupleV, len(x.Results))
					for k, r := range x.Results {
						tv[k] = ex.get(fr, st, r)
					}
					ret = tv
				}
				ex.record(fr, st, ret, nil)
				return nil
			case *ssa.Panic:
				ex.raise(fr, st, &PanicInfo{Val: ex.get(fr, st, x.X), Site: ex.pos(x)})
				return nil
			case *ssa.If:
				c := ex.get(fr, st, x.Cond).(*term.Term)
				if d := ex.decideCond(st, c); d >= 0 {
					next = b.Succs[1-int(d)]
					break
				}
				return ex.branch(fr, st, b, c, stop)
			default:
				sts := ex.step(fr, st, ins)
				if len(sts) == 1 && sts[0] == st {
					continue
				}
				var out []*State
				for _, s := range sts {
					out = append(out, ex.runAt(fr, s, b, i+1, stop)...)
				}
				return ex.mergeStates(fr, out, stop)
			}
			break
		}
		if next == nil {
			abort("UNSUPPORTED", "block %d of %s has no terminator", b.Index, fr.fn)
		}
		ex.edge(fr, st, b, next)
		b, idx = next, 0
	}
}

func (ex *Exec) branch(fr *frame, st *State, b *ssa.BasicBlock, c *term.Term, stop *ssa.BasicBlock) []*State {
	J := fr.ipd[b]
	visits := st.F.Unroll[b]
	useSolver := fr.loops[b] || (visits >= 8 && !ex.slowFeasibility())
	st.facts()
	conds := [2]*term.Term{c, term.Not(c)}
	var feas [2]bool
	for k := 0; k < 2; k++ {
		feas[k] = ex.feasibleSt(st, conds[k], useSolver)
	}
	if visits+1 > ex.MaxUnroll && feas[0] && feas[1] {
		abort("UNWIND-INCOMPLETE", "branch at %s block %d (%s) still two-way feasible after %d visits", fr.fn, b.Index, ex.pos(b.Instrs[len(b.Instrs)-1]), ex.MaxUnroll)
	}
	if !feas[0] && !feas[1] {
		return nil
	}
	if feas[0] != feas[1] {
		k := 0
		if feas[1] {
			k = 1
		}
		st.G = term.And(st.G, conds[k])
		ex.edge(fr, st, b, b.Succs[k])
		return ex.runAt(fr, st, b.Succs[k], 0, stop)
	}
	if ex.Trace {
		ex.tracef("fork %s %s visits=%d block=%d cond-size=%d", fr.fn.Name(), ex.pos(b.Instrs[len(b.Instrs)-1]), visits, b.Index, term.Size(c))
		for _, v := range term.Vars(c) {
			r := st.facts().rangeOf(v)
			ex.tracef("    var %s [%d,%d]", v.Name, r.lo, r.hi)
		}
	}
	var arrived []*State
	for k := 0; k < 2; k++ {
		s := st.fork(conds[k])
		ex.Forks++
		if s.F.Unroll == nil {
			s.F.Unroll = map[*ssa.BasicBlock]int{}
		}
		s.F.Unroll[b] = visits + 1
		ex.edge(fr, s, b, b.Succs[k])
		arrived = append(arrived, ex.runAt(fr, s, b.Succs[k], 0, J)...)
	}
	if J == nil {
		return nil
	}
	merged := ex.mergeStates(fr, arrived, J)
	for _, m := range merged {
		if m.fF == nil {
			m.fG, m.fF = st.fG, st.fF
		}
		// the region opened by this branch is closed: nesting depth goes back to what it was
		if visits == 0 {
			delete(m.F.Unroll, b)
		} else {
			m.F.Unroll[b] = visits
		}
	}
	if J == stop {
		return merged
	}
	var out []*State
	for _, m := range merged {
		out = append(out, ex.runAt(fr, m, J, 0, stop)...)
	}
	return ex.mergeStates(fr, out, stop)
}

func (ex *Exec) pos(ins ssa.Instruction) string {
	p := ins.Pos()
	if p == token.NoPos {
		if ins.Parent() != nil {
			return ins.Parent().String()
		}
		return "?"
	}
	pp := ex.Prog.Fset.Position(p)
	return fmt.Sprintf("%s:%d", pp.Filename, pp.Line)
}

// ---------- merging of states and outcomes ----------

func conjuncts(g *term.Term) []*term.Term {
	if g.Op == term.OAnd {
		return g.Args
	}
	if g.IsTrue() {
		return nil
	}
	return []*term.Term{g}
}

// splitGuards factors two guards into a common part and the two residues.
func splitGuards(a, b *term.Term) (common, ra, rb *term.Term) {
	ca, cb := conjuncts(a), conjuncts(b)
	inB := map[int]bool{}
	for _, x := range cb {
		inB[x.ID] = true
	}
	inA := map[int]bool{}
	for _, x := range ca {
		inA[x.ID] = true
	}
	var com, xa, xb []*term.Term
	for _, x := range ca {
		if inB[x.ID] {
			com = append(com, x)
		} else {
			xa = append(xa, x)
		}
	}
	for _, x := range cb {
		if !inA[x.ID] {
			xb = append(xb, x)
		}
	}
	return term.And(com...), term.And(xa...), term.And(xb...)
}

func mergeGuard(a, b *term.Term) (*term.Term, *term.Term) {
	com, ra, rb := splitGuards(a, b)
	return term.And(com, term.Or(ra, rb)), ra
}

func samePanics(a, b []panicEntry) bool {
	if len(a) != len(b) {
		return false
	}
	for i := range a {
		if a[i] != b[i] {
			return false
		}
	}
	return true
}

func (ex *Exec) tryMergeStates(fr *frame, a, b *State, live map[ssa.Value]bool) (*State, bool) {
	if len(a.F.Defers) != len(b.F.Defers) || !samePanics(a.Panics, b.Panics) {
		return nil, false
	}
	g, sel := mergeGuard(a.G, b.G)
	m := &merger{c: sel, base: fr.base, rho: map[int]int{}, rhoInv: map[int]int{}, ha: a.H, hb: b.H}
	env := make(map[ssa.Value]Value, len(a.F.Env))
	for k, va := range a.F.Env {
		if live != nil && !live[k] {
			continue
		}
		vb, ok := b.F.Env[k]
		if !ok {
			env[k] = va
			continue
		}
		v, ok := m.val(va, vb)
		if !ok {
			ex.tracef("merge fail in %s: env %s: %T %v vs %T %v", fr.fn.Name(), k.Name(), va, va, vb, vb)
			return nil, false
		}
		env[k] = v
	}
	var bOnly []ssa.Value
	for k := range b.F.Env {
		if live != nil && !live[k] {
			continue
		}
		if _, ok := a.F.Env[k]; !ok {
			bOnly = append(bOnly, k)
		}
	}
	defers := make([]deferred, len(a.F.Defers))
	for i := range defers {
		da, db := a.F.Defers[i], b.F.Defers[i]
		if da.method != db.method || len(da.args) != len(db.args) {
			return nil, false
		}
		fv, ok := m.val(da.fn, db.fn)
		if !ok {
			return nil, false
		}
		args := make([]Value, len(da.args))
		for j := range args {
			v, ok := m.val(da.args[j], db.args[j])
			if !ok {
				return nil, false
			}
			args[j] = v
		}
		defers[i] = deferred{fn: fv, method: da.method, args: args}
	}
	h, ok := m.heaps()
	if !ok {
		ex.tracef("merge fail in %s: heap", fr.fn.Name())
		return nil, false
	}
	for _, k := range bOnly {
		env[k] = m.renameVal(b.F.Env[k])
	}
	unroll := map[*ssa.BasicBlock]int{}
	for k, v := range a.F.Unroll {
		unroll[k] = v
	}
	for k, v := range b.F.Unroll {
		if v > unroll[k] {
			unroll[k] = v
		}
	}
	ex.Merges++
	return &State{G: g, H: h, F: &FrameState{Env: env, Defers: defers, Unroll: unroll}, Panics: a.Panics}, true
}

func (ex *Exec) mergeStates(fr *frame, in []*State, at *ssa.BasicBlock) []*State {
	if len(in) <= 1 {
		return in
	}
	var live map[ssa.Value]bool
	if at != nil {
		live = ex.liveIn(fr.fn)[at]
	}
	var out []*State
	for _, s := range in {
		done := false
		for i, o := range out {
			if m, ok := ex.tryMergeStates(fr, o, s, live); ok {
				out[i] = m
				done = true
				break
			}
		}
		if !done {
			out = append(out, s)
		}
	}
	if len(out) > ex.MaxStates {
		abort("BUDGET", "more than %d unmerged states in %s", ex.MaxStates, fr.fn)
	}
	return out
}

func (ex *Exec) mergeOutcomes(fr *frame, in []*Outcome) []*Outcome {
	if len(in) <= 1 {
		return in
	}
	var out []*Outcome
	for _, s := range in {
		done := false
		for i, o := range out {
			if (o.Panic == nil) != (s.Panic == nil) || !samePanics(o.Panics, s.Panics) {
				continue
			}
			g, sel := mergeGuard(o.G, s.G)
			m := &merger{c: sel, base: fr.base, rho: map[int]int{}, rhoInv: map[int]int{}, ha: o.H, hb: s.H}
			var ret Value
			var pi *PanicInfo
			ok := true
			if o.Panic != nil {
				if o.Panic.Site != s.Panic.Site || o.Panic.Runtime != s.Panic.Runtime {
					continue
				}
				var pv Value
				pv, ok = m.val(o.Panic.Val, s.Panic.Val)
				pi = &PanicInfo{Val: pv, Site: o.Panic.Site, Runtime: o.Panic.Runtime}
			} else {
				ret, ok = m.val(o.Ret, s.Ret)
			}
			if !ok {
				continue
			}
			h, ok := m.heaps()
			if !ok {
				continue
			}
			ex.Merges++
			out[i] = &Outcome{G: g, H: h, Ret: ret, Panic: pi, Panics: o.Panics}
			done = true
			break
		}
		if !done {
			out = append(out, s)
		}
	}
	return out
}

// ---------- entry point ----------

type RunResult struct {
	Outcomes []*callResult
}

// WithDefs is the exported form of withDefs.
func (ex *Exec) WithDefs(g *term.Term) []*term.Term { return ex.withDefs(g) }

// RunHarness executes a parameterless harness function from the initial heap.
func (ex *Exec) RunHarness(fn *ssa.Function) *RunResult { return ex.RunHarnessArgs(fn, nil) }

// RunHarnessArgs executes a harness function with concrete integer arguments.
func (ex *Exec) RunHarnessArgs(fn *ssa.Function, args []Value) *RunResult {
	h := ex.initHeap.Fork()
	res := ex.CallFunction(fn, nil, args, term.True(), h, nil, 0)
	ex.EndStates += len(res)
	for _, r := range res {
		if r.Panic != nil {
			msg := "panic"
			if s, ok := r.Panic.Val.(IfaceV); ok {
				if sv, ok := s.V.(StringV); ok {
					if c, ok := sv.Concrete(); ok {
						msg = c
					}
				}
			}
			ex.VCs = append(ex.VCs, &VC{Label: "no-panic", Guard: r.G, Cond: term.False(), Kind: "panic", Site: r.Panic.Site + ": " + msg})
		}
	}
	return &RunResult{Outcomes: res}
}

// SortedFnInstrs lists functions executed with instruction counts.
func (ex *Exec) SortedFnInstrs() []string {
	var names []string
	for k := range ex.FnInstrs {
		names = append(names, k)
	}
	sort.Strings(names)
	out := make([]string, len(names))
	for i, n := range names {
		out[i] = fmt.Sprintf("%s:%d", n, ex.FnInstrs[n])
	}
	return out
}

func (ex *Exec) tracef(f string, a ...interface{}) {
	if ex.Trace {
		fmt.Fprintf(os.Stderr, f+"\n", a...)
	}
}
