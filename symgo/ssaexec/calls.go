package ssaexec

import (
	"fmt"
	"go/types"
	"strings"

	"golang.org/x/tools/go/ssa"

	"symgo/term"
)

func (ex *Exec) prepareCall(fr *frame, st *State, c *ssa.CallCommon) deferred {
	args := make([]Value, len(c.Args))
	for i, a := range c.Args {
		args[i] = ex.get(fr, st, a)
	}
	if c.IsInvoke() {
		return deferred{fn: ex.get(fr, st, c.Value), method: c.Method, args: args}
	}
	return deferred{fn: ex.get(fr, st, c.Value), args: args}
}

// StubFn implements an external function. It may split the state; each result carries its own guard/heap.
type StubFn func(ex *Exec, c *CallCtx) []*callResult

type CallCtx struct {
	St   *State
	Fr   *frame
	Args []Value
	Site ssa.Instruction
	Fn   *ssa.Function
	Name string
}

func (c *CallCtx) ret(v Value) []*callResult {
	return []*callResult{{G: c.St.G, H: c.St.H, Ret: v, Panics: c.St.Panics}}
}

func (c *CallCtx) retIn(st *State, v Value) *callResult {
	return &callResult{G: st.G, H: st.H, Ret: v, Panics: st.Panics}
}

func (c *CallCtx) panicWith(ex *Exec, msg string) []*callResult {
	return []*callResult{{G: c.St.G, H: c.St.H, Panic: &PanicInfo{Val: IfaceV{T: types.Typ[types.String], V: Str(msg)}, Site: ex.posOf(c.Site), Runtime: true}, Panics: c.St.Panics}}
}

func (ex *Exec) posOf(ins ssa.Instruction) string {
	if ins == nil {
		return "?"
	}
	return ex.pos(ins)
}

var Stubs = map[string]StubFn{}

// ExecStd lists standard-library functions simple enough to be executed from their own SSA.
var ExecStd = map[string]bool{
	"(*fmt.wrapError).Unwrap":       true,
	"(*strconv.NumError).Unwrap":    true,
	"(encoding/json.Number).String": true,
	"(encoding/json.Delim).String":  true,
	"(time.Month).String":           false,
}

func (ex *Exec) callValue(fr *frame, st *State, fv Value, method *types.Func, args []Value, site ssa.Instruction) []*callResult {
	if method != nil {
		iv, ok := fv.(IfaceV)
		if !ok || iv.T == nil {
			return []*callResult{{G: st.G, H: st.H, Panic: runtimePanic(ex.posOf(site), "nil pointer dereference (method call on nil interface)"), Panics: st.Panics}}
		}
		fn := ex.Prog.LookupMethod(iv.T, method.Pkg(), method.Name())
		if fn == nil {
			abort("UNSUPPORTED", "no method %s on %v", method.Name(), iv.T)
		}
		return ex.callFn(fr, st, fn, nil, append([]Value{iv.V}, args...), site)
	}
	f, ok := fv.(FuncV)
	if !ok {
		abort("UNSUPPORTED", "call of %T", fv)
	}
	if f.Builtin != "" {
		return ex.builtin(fr, st, f.Builtin, args, site)
	}
	if f.Fn == nil {
		return []*callResult{{G: st.G, H: st.H, Panic: runtimePanic(ex.posOf(site), "call of nil func"), Panics: st.Panics}}
	}
	return ex.callFn(fr, st, f.Fn, f.Bind, args, site)
}

func (ex *Exec) callFn(fr *frame, st *State, fn *ssa.Function, bind []Value, args []Value, site ssa.Instruction) []*callResult {
	name := fn.String()
	if ex.inModule(fn) && fn.Blocks == nil && isHarnessPrim(fn.Name()) {
		return ex.harnessPrim(fr, st, fn, args, site)
	}
	if stub, ok := Stubs[name]; ok {
		ex.StubsUsed[name]++
		ex.StubsTotal[name]++
		return stub(ex, &CallCtx{St: st, Fr: fr, Args: args, Site: site, Fn: fn, Name: name})
	}
	if o := fn.Origin(); o != nil {
		if stub, ok := Stubs[o.String()]; ok {
			ex.StubsUsed[o.String()]++
			ex.StubsTotal[o.String()]++
			return stub(ex, &CallCtx{St: st, Fr: fr, Args: args, Site: site, Fn: fn, Name: o.String()})
		}
	}
	if fn.Blocks != nil && (ex.inModule(fn) || fn.Synthetic != "" && wrapperOK(fn) || ExecStd[name]) {
		depth := 0
		if fr != nil {
			depth = fr.depth + 1
		}
		return ex.CallFunction(fn, bind, args, st.G, st.H, st.Panics, depth)
	}
	if fn.Name() == "init" && fn.Blocks != nil {
		// package initialisers of dependencies are not executed
		return []*callResult{{G: st.G, H: st.H, Panics: st.Panics}}
	}
	abort("UNSUPPORTED-CALL", "%s (called at %s)", name, ex.posOf(site))
	return nil
}

func wrapperOK(fn *ssa.Function) bool {
	s := fn.Synthetic
	return strings.HasPrefix(s, "wrapper") || strings.HasPrefix(s, "bound") || strings.HasPrefix(s, "thunk") || strings.HasPrefix(s, "instance") || strings.HasPrefix(s, "instantiation")
}

func (ex *Exec) builtin(fr *frame, st *State, name string, args []Value, site ssa.Instruction) []*callResult {
	ret := func(v Value) []*callResult {
		return []*callResult{{G: st.G, H: st.H, Ret: v, Panics: st.Panics}}
	}
	switch name {
	case "len":
		switch a := args[0].(type) {
		case StringV:
			return ret(term.Const(64, uint64(len(a.B))))
		case SliceV:
			return ret(term.Const(64, uint64(a.Len)))
		case MapV:
			if a.Obj == 0 {
				return ret(term.Const(64, 0))
			}
			return ret(term.Const(64, uint64(len(st.H.Get(a.Obj).(*mapData).Keys))))
		case *ArrayV:
			return ret(term.Const(64, uint64(len(a.E))))
		case PtrV:
			if arr, ok := st.H.Load(a).(*ArrayV); ok {
				return ret(term.Const(64, uint64(len(arr.E))))
			}
		}
	case "cap":
		switch a := args[0].(type) {
		case SliceV:
			return ret(term.Const(64, uint64(a.Cap)))
		case *ArrayV:
			return ret(term.Const(64, uint64(len(a.E))))
		}
	case "append":
		s := args[0].(SliceV)
		var add []Value
		switch a := args[1].(type) {
		case SliceV:
			add = append(add, ex.sliceElems(st, a)...)
		case StringV:
			for _, b := range a.B {
				add = append(add, b)
			}
		default:
			abort("UNSUPPORTED", "append of %T", args[1])
		}
		return ret(ex.appendSlice(st, s, add))
	case "copy":
		dst := args[0].(SliceV)
		var src []Value
		switch a := args[1].(type) {
		case SliceV:
			src = append(src, ex.sliceElems(st, a)...) // snapshot first: copy has memmove semantics
		case StringV:
			for _, b := range a.B {
				src = append(src, b)
			}
		}
		n := len(src)
		if dst.Len < n {
			n = dst.Len
		}
		for i := 0; i < n; i++ {
			st.H.Store(PtrV{Obj: dst.Obj, Path: []int{dst.Off + i}}, src[i])
		}
		return ret(term.Const(64, uint64(n)))
	case "panic":
		return []*callResult{{G: st.G, H: st.H, Panic: &PanicInfo{Val: args[0], Site: ex.posOf(site)}, Panics: st.Panics}}
	case "recover":
		n := len(st.Panics)
		if n == 0 || st.Panics[n-1].recovered || st.Panics[n-1].info == nil {
			return ret(IfaceV{})
		}
		np := append([]panicEntry(nil), st.Panics...)
		np[n-1].recovered = true
		v := np[n-1].info.Val
		if _, ok := v.(IfaceV); !ok {
			v = IfaceV{T: types.Typ[types.String], V: Str("panic")}
		}
		return []*callResult{{G: st.G, H: st.H, Ret: v, Panics: np}}
	case "print", "println":
		return ret(nil)
	case "Sizeof":
		if t, ok := args[0].(*term.Term); ok {
			n := t.Sort.W / 8
			if t.Sort.K == term.KBool {
				n = 1
			}
			return ret(term.Const(64, uint64(n)))
		}
	case "min", "max":
		abort("UNSUPPORTED", "builtin %s", name)
	}
	abort("UNSUPPORTED", "builtin %s on %T", name, args[0])
	return nil
}

// appendSlice implements append with Go's aliasing behaviour: in place while capacity suffices.
func (ex *Exec) appendSlice(st *State, s SliceV, add []Value) SliceV {
	if len(add) == 0 {
		return s
	}
	n := s.Len + len(add)
	if n <= s.Cap && s.Obj != 0 {
		for i, v := range add {
			st.H.Store(PtrV{Obj: s.Obj, Path: []int{s.Off + s.Len + i}}, v)
		}
		return SliceV{Obj: s.Obj, Off: s.Off, Len: n, Cap: s.Cap}
	}
	nc := 2 * s.Cap
	if nc < n {
		nc = n
	}
	if nc < 8 {
		nc = 8
	}
	cells := make([]Value, nc)
	copy(cells, ex.sliceElems(st, s))
	copy(cells[s.Len:], add)
	var z Value
	if t, ok := add[0].(*term.Term); ok {
		z = zeroLike(t)
	} else {
		z = add[0] // shape placeholder for spare cells of non-scalar element type (never read before written)
	}
	for i := n; i < nc; i++ {
		cells[i] = z
	}
	return SliceV{Obj: st.H.Alloc(&ArrayV{E: cells}), Off: 0, Len: n, Cap: nc}
}

// ---------- UTF-8 ----------

type runeAlt struct {
	cond  *term.Term
	r     *term.Term // 32-bit
	width int
}

func in8(b *term.Term, lo, hi uint64) *term.Term {
	return term.And(term.Uge(b, term.Const(8, lo)), term.Ule(b, term.Const(8, hi)))
}

// decodeRuneAlts gives the mutually exclusive alternatives for utf8.DecodeRune on bs (len >= 1).
func decodeRuneAlts(bs []*term.Term) []runeAlt {
	b0 := bs[0]
	z := func(b *term.Term) *term.Term { return term.Zext(b, 24) }
	ascii := term.Ult(b0, term.Const(8, 0x80))
	var alts []runeAlt
	valid := []*term.Term{ascii}
	if len(bs) >= 2 {
		b1 := bs[1]
		c2 := term.And(in8(b0, 0xC2, 0xDF), in8(b1, 0x80, 0xBF))
		r2 := term.BOr(term.Shl(term.BAnd(z(b0), term.Const(32, 0x1F)), term.Const(32, 6)), term.BAnd(z(b1), term.Const(32, 0x3F)))
		alts = append(alts, runeAlt{c2, r2, 2})
		valid = append(valid, c2)
		if len(bs) >= 3 {
			b2 := bs[2]
			b1ok := term.Ite(term.Eq(b0, term.Const(8, 0xE0)), in8(b1, 0xA0, 0xBF),
				term.Ite(term.Eq(b0, term.Const(8, 0xED)), in8(b1, 0x80, 0x9F), in8(b1, 0x80, 0xBF)))
			c3 := term.And(in8(b0, 0xE0, 0xEF), b1ok, in8(b2, 0x80, 0xBF))
			r3 := term.BOr(term.BOr(term.Shl(term.BAnd(z(b0), term.Const(32, 0x0F)), term.Const(32, 12)),
				term.Shl(term.BAnd(z(b1), term.Const(32, 0x3F)), term.Const(32, 6))), term.BAnd(z(b2), term.Const(32, 0x3F)))
			alts = append(alts, runeAlt{c3, r3, 3})
			valid = append(valid, c3)
			if len(bs) >= 4 {
				b3 := bs[3]
				b1ok4 := term.Ite(term.Eq(b0, term.Const(8, 0xF0)), in8(b1, 0x90, 0xBF),
					term.Ite(term.Eq(b0, term.Const(8, 0xF4)), in8(b1, 0x80, 0x8F), in8(b1, 0x80, 0xBF)))
				c4 := term.And(in8(b0, 0xF0, 0xF4), b1ok4, in8(b2, 0x80, 0xBF), in8(b3, 0x80, 0xBF))
				r4 := term.BOr(term.BOr(term.BOr(term.Shl(term.BAnd(z(b0), term.Const(32, 0x07)), term.Const(32, 18)),
					term.Shl(term.BAnd(z(b1), term.Const(32, 0x3F)), term.Const(32, 12))),
					term.Shl(term.BAnd(z(b2), term.Const(32, 0x3F)), term.Const(32, 6))), term.BAnd(z(b3), term.Const(32, 0x3F)))
				alts = append(alts, runeAlt{c4, r4, 4})
				valid = append(valid, c4)
			}
		}
	}
	// width 1: ASCII or invalid encoding (RuneError)
	multi := make([]*term.Term, 0, 3)
	for _, a := range alts {
		multi = append(multi, a.cond)
	}
	w1 := term.Not(term.Or(multi...))
	r1 := term.Ite(ascii, z(b0), term.Const(32, 0xFFFD))
	return append([]runeAlt{{w1, r1, 1}}, alts...)
}

func (ex *Exec) next(fr *frame, st *State, x *ssa.Next) []*State {
	it := ex.get(fr, st, x.Iter).(RangeV)
	if !x.IsString {
		abort("UNSUPPORTED", "range over map at %s", ex.pos(x))
	}
	tup := st.H.Get(it.Obj).(TupleV)
	s := tup[0].(StringV)
	pos := int(tup[1].(*term.Term).Val)
	if pos >= len(s.B) {
		st.F.Env[x] = TupleV{term.False(), term.Const(64, 0), term.Const(32, 0)}
		return one(st)
	}
	alts := decodeRuneAlts(s.B[pos:])
	var feas []runeAlt
	for _, a := range alts {
		if ex.feasibleSt(st, a.cond, false) {
			feas = append(feas, a)
		}
	}
	var out []*State
	for i, a := range feas {
		var ns *State
		if i == len(feas)-1 {
			ns = st
			ns.G = term.And(st.G, a.cond)
		} else {
			ns = st.fork(a.cond)
			ex.Forks++
		}
		ns.H.Set(it.Obj, TupleV{s, term.Const(64, uint64(pos+a.width))})
		ns.F.Env[x] = TupleV{term.True(), term.Const(64, uint64(pos)), a.r}
		out = append(out, ns)
	}
	if len(out) == 1 && out[0] == st {
		return one(st)
	}
	return out
}

func (ex *Exec) stringToRunes(fr *frame, st *State, x *ssa.Convert, s StringV) []*State {
	type part struct {
		st    *State
		pos   int
		runes []Value
	}
	work := []part{{st: st}}
	var out []*State
	for len(work) > 0 {
		p := work[len(work)-1]
		work = work[:len(work)-1]
		if p.pos >= len(s.B) {
			p.st.F.Env[x] = ex.newSlice(p.st, p.runes, len(p.runes))
			if len(p.runes) == 0 {
				p.st.F.Env[x] = SliceV{Obj: p.st.H.Alloc(&ArrayV{}), Len: 0, Cap: 0}
			}
			out = append(out, p.st)
			continue
		}
		alts := decodeRuneAlts(s.B[p.pos:])
		var feas []runeAlt
		for _, a := range alts {
			if ex.feasibleSt(p.st, a.cond, false) {
				feas = append(feas, a)
			}
		}
		for i, a := range feas {
			var ns *State
			if i == len(feas)-1 {
				ns = p.st
				ns.G = term.And(ns.G, a.cond)
			} else {
				ns = p.st.fork(a.cond)
				ex.Forks++
			}
			work = append(work, part{st: ns, pos: p.pos + a.width, runes: append(append([]Value(nil), p.runes...), a.r)})
		}
	}
	if len(out) > ex.MaxStates {
		abort("BUDGET", "[]rune(string) produced %d states", len(out))
	}
	return out
}

// encodeRune gives the UTF-8 bytes of a rune when its width is decidable.
func (ex *Exec) encodeRune(st *State, r *term.Term) ([]*term.Term, bool) {
	r = term.Resize(r, 32, false)
	if r.IsConst() {
		s := string(rune(r.Val))
		return Str(s).B, true
	}
	f := st.facts()
	rg := f.rangeOf(r)
	if rg.hi < 0x80 {
		return []*term.Term{term.Extract(r, 7, 0)}, true
	}
	return nil, false
}

func isHarnessPrim(name string) bool {
	return len(name) >= 2 && name[0] == 'v' && name[1] >= 'A' && name[1] <= 'Z'
}

func concreteStringArg(v Value) string {
	s, ok := v.(StringV)
	if !ok {
		abort("UNSUPPORTED", "harness primitive name must be a string literal")
	}
	c, ok := s.Concrete()
	if !ok {
		abort("UNSUPPORTED", "harness primitive name must be a string literal")
	}
	return c
}

func (ex *Exec) input(name string, s term.Sort, kind string) *term.Term {
	if ex.Concrete != nil {
		v := ex.Concrete[name]
		switch s.K {
		case term.KBool:
			return term.Bool(v != 0)
		case term.KFP:
			return term.FpOfBits(term.Const(s.W, v))
		}
		return term.Const(s.W, v)
	}
	t := term.Var(name, s)
	if _, ok := ex.InputKinds[name]; !ok {
		ex.InputKinds[name] = kind
		ex.Inputs = append(ex.Inputs, t)
	}
	return t
}

func (ex *Exec) harnessPrim(fr *frame, st *State, fn *ssa.Function, args []Value, site ssa.Instruction) []*callResult {
	ret := func(v Value) []*callResult {
		return []*callResult{{G: st.G, H: st.H, Ret: v, Panics: st.Panics}}
	}
	name := fn.Name()
	switch name {
	case "vU8", "vU16", "vU32", "vU64", "vI8", "vI16", "vI32", "vI64", "vInt", "vUint":
		w := 64
		switch name {
		case "vU8", "vI8":
			w = 8
		case "vU16", "vI16":
			w = 16
		case "vU32", "vI32":
			w = 32
		}
		return ret(ex.input(concreteStringArg(args[0]), term.BV(w), name))
	case "vBool":
		return ret(ex.input(concreteStringArg(args[0]), term.BoolSort, name))
	case "vF64":
		return ret(ex.input(concreteStringArg(args[0]), term.FP(64), name))
	case "vF32":
		return ret(ex.input(concreteStringArg(args[0]), term.FP(32), name))
	case "vBytes", "vStr":
		nm := concreteStringArg(args[0])
		n, ok := ex.concreteInt(st, args[1].(*term.Term), true)
		if !ok {
			abort("UNSUPPORTED", "%s length must be concrete", name)
		}
		bs := make([]*term.Term, n)
		for i := range bs {
			bs[i] = ex.input(fmt.Sprintf("%s[%d]", nm, i), term.BV(8), "byte")
		}
		if name == "vStr" {
			return ret(StringV{B: bs})
		}
		if n == 0 {
			return ret(SliceV{Obj: st.H.Alloc(&ArrayV{}), Len: 0, Cap: 0})
		}
		return ret(ex.byteSlice(st, bs))
	case "vAssume":
		c := args[0].(*term.Term)
		g := term.And(st.G, c)
		if !ex.feasible(g, false) {
			return nil
		}
		return []*callResult{{G: g, H: st.H, Panics: st.Panics}}
	case "vAssert":
		ex.VCs = append(ex.VCs, &VC{Label: concreteStringArg(args[0]), Guard: st.G, Cond: args[1].(*term.Term), Kind: "assert", Site: ex.posOf(site)})
		return ret(nil)
	case "vReach":
		ex.VCs = append(ex.VCs, &VC{Label: concreteStringArg(args[0]), Guard: st.G, Cond: args[1].(*term.Term), Kind: "reach", Site: ex.posOf(site)})
		return ret(nil)
	case "vMust":
		// like vReach, but the witness is part of the property: it must exist in every run (not just in some run of
		// the harness function), and its absence is a violation, not vacuity
		ex.VCs = append(ex.VCs, &VC{Label: concreteStringArg(args[0]), Guard: st.G, Cond: args[1].(*term.Term), Kind: "must", Site: ex.posOf(site)})
		return ret(nil)
	case "vKnown":
		nm := concreteStringArg(args[0])
		c := args[1].(*term.Term)
		if old, ok := ex.Known[nm]; ok {
			ex.Known[nm] = term.Or(old, c)
		} else {
			ex.Known[nm] = c
			ex.KnownOrder = append(ex.KnownOrder, nm)
		}
		return ret(nil)
	case "vNative":
		return ret(term.False())
	case "vAliases":
		sv, isStr := args[0].(StringV)
		bv, isSl := args[1].(SliceV)
		return ret(term.Bool(isStr && isSl && sv.Alias != 0 && sv.Alias == bv.Obj))
	case "vRecordGlobals":
		ex.RecordGlobals = true
		return ret(nil)
	case "vNoOutcomeMerge":
		ex.NoOutcomeMerge = true
		return ret(nil)
	case "vMergeOutcomes":
		// the harness asks for shape-merging of the outcomes of the calls it makes itself (cheaper, less precise facts)
		ex.KeepHarnessOutcomes = false
		return ret(nil)
	case "vUnwind":
		n, _ := ex.concreteInt(st, args[0].(*term.Term), true)
		ex.MaxUnroll = n
		return ret(nil)
	case "vConcrete":
		// vConcrete(x) reports whether the executor sees x as a constant (debug aid)
		t := args[0].(*term.Term)
		return ret(term.Bool(t.IsConst()))
	}
	abort("UNSUPPORTED", "unknown harness primitive %s", name)
	return nil
}
