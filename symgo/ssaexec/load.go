package ssaexec

import (
	"fmt"
	"go/types"
	"os"
	"path/filepath"
	"strings"

	"golang.org/x/tools/go/packages"
	"golang.org/x/tools/go/ssa"
	"golang.org/x/tools/go/ssa/ssautil"

	"symgo/term"
)

type Loaded struct {
	Prog *ssa.Program
	Pkgs map[string]*ssa.Package // by import path
	Init []*ssa.Package          // module packages in dependency order
}

// Load builds SSA for the module at repoDir, with harness files overlaid into their packages.
// overlay maps a virtual path under repoDir to file contents.
func Load(repoDir, module string, overlay map[string][]byte, patterns ...string) (*Loaded, error) {
	cfg := &packages.Config{
		Mode:    packages.LoadAllSyntax,
		Dir:     repoDir,
		Overlay: overlay,
		Env:     append(os.Environ(), "GOFLAGS=-mod=mod", "GOPROXY=off", "GOSUMDB=off", "GOTOOLCHAIN=local"),
	}
	pkgs, err := packages.Load(cfg, patterns...)
	if err != nil {
		return nil, err
	}
	var errs []string
	packages.Visit(pkgs, nil, func(p *packages.Package) {
		for _, e := range p.Errors {
			errs = append(errs, e.Error())
		}
	})
	if len(errs) > 0 {
		return nil, fmt.Errorf("load errors:\n%s", strings.Join(errs, "\n"))
	}
	prog, _ := ssautil.AllPackages(pkgs, ssa.InstantiateGenerics)
	prog.Build()
	ld := &Loaded{Prog: prog, Pkgs: map[string]*ssa.Package{}}
	seen := map[string]bool{}
	var visit func(p *packages.Package)
	visit = func(p *packages.Package) {
		if seen[p.PkgPath] {
			return
		}
		seen[p.PkgPath] = true
		for _, imp := range p.Imports {
			visit(imp)
		}
		sp := prog.Package(p.Types)
		if sp == nil {
			return
		}
		ld.Pkgs[p.PkgPath] = sp
		if p.PkgPath == module || strings.HasPrefix(p.PkgPath, module+"/") {
			ld.Init = append(ld.Init, sp)
		}
	}
	for _, p := range pkgs {
		visit(p)
	}
	return ld, nil
}

// OverlayFor maps harness files (harnessDir/<pkg>/*.go) into repoDir/<pkg>/zz_verif_<name> and adds the
// harness primitives (symbolic or native variant) to every package that has harness files.
func OverlayFor(repoDir, harnessDir string, native bool) (map[string][]byte, error) {
	ov := map[string][]byte{}
	tmpl := "prims_sym.go.txt"
	if native {
		tmpl = "prims_native.go.txt"
	}
	prims, err := os.ReadFile(filepath.Join(harnessDir, "_prims", tmpl))
	if err != nil {
		return nil, err
	}
	dirs, err := os.ReadDir(harnessDir)
	if err != nil {
		return nil, err
	}
	for _, d := range dirs {
		if !d.IsDir() || strings.HasPrefix(d.Name(), "_") {
			continue
		}
		files, _ := filepath.Glob(filepath.Join(harnessDir, d.Name(), "*.go"))
		pkgName := ""
		for _, f := range files {
			data, err := os.ReadFile(f)
			if err != nil {
				return nil, err
			}
			for _, line := range strings.Split(string(data), "\n") {
				if strings.HasPrefix(line, "package ") {
					pkgName = strings.TrimSpace(strings.TrimPrefix(line, "package "))
					break
				}
			}
			ov[filepath.Join(repoDir, d.Name(), "zz_verif_"+filepath.Base(f))] = data
		}
		if pkgName != "" {
			ov[filepath.Join(repoDir, d.Name(), "zz_verif_prims.go")] = []byte(strings.Replace(string(prims), "package PKG", "package "+pkgName, 1))
		}
	}
	return ov, nil
}

// InitModule runs the init functions of the module's packages concretely and keeps the resulting heap.
func (ex *Exec) InitModule(ld *Loaded) {
	h := NewHeap()
	g := term.True()
	for _, p := range ld.Init {
		initFn := p.Func("init")
		if initFn == nil {
			continue
		}
		// mark dependency packages' init guards: only this package's own body matters because
		// dependencies were initialised earlier in the order (their init$guard is then true).
		res := ex.CallFunction(initFn, nil, nil, g, h, nil, 0)
		if len(res) != 1 || res[0].Panic != nil {
			abort("UNSUPPORTED", "init of %s did not complete in a single state (%d outcomes)", p.Pkg.Path(), len(res))
		}
		g, h = res[0].G, res[0].H
	}
	h.Freeze()
	ex.initHeap = h
	// init instructions are not part of the per-harness accounting
	ex.FnInstrs = map[string]int{}
	ex.StubsUsed = map[string]int{}
	ex.StubsTotal = map[string]int{}
	ex.Steps = 0
	ex.TotalSteps = 0
}

// ResetRun clears per-harness results but keeps the initial heap.
func (ex *Exec) ResetRun() {
	ex.VCs = nil
	ex.Known = map[string]*term.Term{}
	ex.KnownOrder = nil
	ex.Inputs = nil
	ex.InputKinds = map[string]string{}
	ex.Defs = nil
	ex.MaxUnroll = 64
	ex.Steps = 0
	ex.Events = nil
	ex.digitMemo = nil
	ex.KeepHarnessOutcomes = true
	ex.cutLemmas = nil
	ex.NoOutcomeMerge = false
	ex.RecordGlobals = false
	ex.feasQ0, ex.feasS0 = ex.FeasQ, ex.FeasSecs
	factsCache = map[int]*facts{}
	globalConj = nil
	setTermMemo = map[string]*term.Term{}
	ex.ymdMemo = nil
	ex.randN = 0
	ex.tryN = 0
}

func (ex *Exec) extGlobalInit(st *State, g *ssa.Global) (Value, bool) {
	if g.Pkg == nil {
		return nil, false
	}
	name := g.Pkg.Pkg.Path() + "." + g.Name()
	if f, ok := ExtGlobals[name]; ok {
		return f(ex, st), true
	}
	return nil, false
}

// ExtGlobals gives initial values to globals of packages whose init is not executed.
var ExtGlobals = map[string]func(ex *Exec, st *State) Value{}

// NamedType finds a named type of an imported package.
func (ex *Exec) NamedType(pkgPath, name string) types.Type {
	p := ex.Prog.ImportedPackage(pkgPath)
	if p == nil {
		abort("UNSUPPORTED", "package %s not loaded", pkgPath)
	}
	m := p.Members[name]
	if t, ok := m.(*ssa.Type); ok {
		return t.Type()
	}
	// unexported types are not members of the ssa.Package; search the scope
	if o := p.Pkg.Scope().Lookup(name); o != nil {
		return o.Type()
	}
	abort("UNSUPPORTED", "type %s.%s not found", pkgPath, name)
	return nil
}
