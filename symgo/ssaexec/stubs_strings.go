package ssaexec

import (
	"unicode"

	"symgo/term"
)

// strCmp is strings.Compare / bytes.Compare on symbolic contents of concrete lengths: -1, 0, 1 as a 64-bit term.
func strCmp(a, b []*term.Term) *term.Term {
	n := len(a)
	if len(b) < n {
		n = len(b)
	}
	var res *term.Term
	switch {
	case len(a) < len(b):
		res = term.Const(64, ^uint64(0))
	case len(a) > len(b):
		res = term.Const(64, 1)
	default:
		res = term.Const(64, 0)
	}
	for i := n - 1; i >= 0; i-- {
		res = term.Ite(term.Eq(a[i], b[i]), res, term.Ite(term.Ult(a[i], b[i]), term.Const(64, ^uint64(0)), term.Const(64, 1)))
	}
	return res
}

func lowerByte(b *term.Term) *term.Term {
	up := term.And(term.Uge(b, term.Const(8, 'A')), term.Ule(b, term.Const(8, 'Z')))
	return term.Ite(up, term.Add(b, term.Const(8, 32)), b)
}

// splitStates forks st over mutually exclusive alternatives, keeping the feasible ones.
func (ex *Exec) splitStates(st *State, conds []*term.Term, useSolver bool) []*State {
	var feas []int
	for i, c := range conds {
		if ex.feasibleSt(st, c, useSolver) {
			feas = append(feas, i)
		}
	}
	out := make([]*State, len(conds))
	for k, i := range feas {
		if k == len(feas)-1 {
			st.G = term.And(st.G, conds[i])
			out[i] = st
		} else {
			out[i] = st.fork(conds[i])
			ex.Forks++
		}
	}
	return out
}

func init() {
	Stubs["strings.Compare"] = func(ex *Exec, c *CallCtx) []*callResult {
		return c.ret(strCmp(c.Args[0].(StringV).B, c.Args[1].(StringV).B))
	}
	Stubs["bytes.Compare"] = func(ex *Exec, c *CallCtx) []*callResult {
		return c.ret(strCmp(ex.sliceBytes(c.St, c.Args[0].(SliceV)), ex.sliceBytes(c.St, c.Args[1].(SliceV))))
	}
	Stubs["strings.HasPrefix"] = func(ex *Exec, c *CallCtx) []*callResult {
		s, p := c.Args[0].(StringV), c.Args[1].(StringV)
		if len(p.B) > len(s.B) {
			return c.ret(term.False())
		}
		return c.ret(ex.eqVal(StringV{B: s.B[:len(p.B)]}, p))
	}
	Stubs["bytes.HasPrefix"] = func(ex *Exec, c *CallCtx) []*callResult {
		s, p := ex.sliceBytes(c.St, c.Args[0].(SliceV)), ex.sliceBytes(c.St, c.Args[1].(SliceV))
		if len(p) > len(s) {
			return c.ret(term.False())
		}
		return c.ret(ex.eqVal(StringV{B: s[:len(p)]}, StringV{B: p}))
	}
	Stubs["bytes.HasSuffix"] = func(ex *Exec, c *CallCtx) []*callResult {
		s, p := ex.sliceBytes(c.St, c.Args[0].(SliceV)), ex.sliceBytes(c.St, c.Args[1].(SliceV))
		if len(p) > len(s) {
			return c.ret(term.False())
		}
		return c.ret(ex.eqVal(StringV{B: s[len(s)-len(p):]}, StringV{B: p}))
	}
	Stubs["strings.HasSuffix"] = func(ex *Exec, c *CallCtx) []*callResult {
		s, p := c.Args[0].(StringV), c.Args[1].(StringV)
		if len(p.B) > len(s.B) {
			return c.ret(term.False())
		}
		return c.ret(ex.eqVal(StringV{B: s.B[len(s.B)-len(p.B):]}, p))
	}
	Stubs["strings.TrimSuffix"] = func(ex *Exec, c *CallCtx) []*callResult {
		s, p := c.Args[0].(StringV), c.Args[1].(StringV)
		if len(p.B) > len(s.B) || len(p.B) == 0 {
			return c.ret(s)
		}
		has := ex.eqVal(StringV{B: s.B[len(s.B)-len(p.B):]}, p)
		sts := ex.splitStates(c.St, []*term.Term{has, term.Not(has)}, false)
		var out []*callResult
		if sts[0] != nil {
			out = append(out, resultIn(sts[0], StringV{B: s.B[:len(s.B)-len(p.B)]}))
		}
		if sts[1] != nil {
			out = append(out, resultIn(sts[1], s))
		}
		return out
	}
	trim := func(left bool) StubFn {
		return func(ex *Exec, c *CallCtx) []*callResult {
			s := c.Args[0].(StringV)
			cut, ok := c.Args[1].(StringV).Concrete()
			if !ok {
				abort("UNSUPPORTED", "strings.Trim* with a symbolic cutset")
			}
			for i := 0; i < len(cut); i++ {
				if cut[i] >= 0x80 {
					abort("UNSUPPORTED", "strings.Trim* with a non-ASCII cutset")
				}
			}
			inCut := func(b *term.Term) *term.Term {
				var ors []*term.Term
				for i := 0; i < len(cut); i++ {
					ors = append(ors, term.Eq(b, term.Const(8, uint64(cut[i]))))
				}
				return term.Or(ors...)
			}
			n := len(s.B)
			// k = number of trimmed bytes: bytes 0..k-1 in cutset, byte k not (or k == n)
			conds := make([]*term.Term, n+1)
			for k := 0; k <= n; k++ {
				var cs []*term.Term
				for j := 0; j < k; j++ {
					if left {
						cs = append(cs, inCut(s.B[j]))
					} else {
						cs = append(cs, inCut(s.B[n-1-j]))
					}
				}
				if k < n {
					if left {
						cs = append(cs, term.Not(inCut(s.B[k])))
					} else {
						cs = append(cs, term.Not(inCut(s.B[n-1-k])))
					}
				}
				conds[k] = term.And(cs...)
			}
			sts := ex.splitStates(c.St, conds, false)
			var out []*callResult
			for k, st := range sts {
				if st == nil {
					continue
				}
				if left {
					out = append(out, resultIn(st, StringV{B: s.B[k:]}))
				} else {
					out = append(out, resultIn(st, StringV{B: s.B[:n-k]}))
				}
			}
			return out
		}
	}
	Stubs["strings.TrimLeft"] = trim(true)
	Stubs["strings.TrimRight"] = trim(false)
	Stubs["strings.ToLower"] = func(ex *Exec, c *CallCtx) []*callResult {
		s := c.Args[0].(StringV)
		out := make([]*term.Term, len(s.B))
		for i, b := range s.B {
			// bytes >= 0x80 are parts of multi-byte runes whose lower-casing may change length: require ASCII
			if ex.decideCond(c.St, term.Ult(b, term.Const(8, 0x80))) != 1 {
				abort("UNSUPPORTED", "strings.ToLower of text not known to be ASCII at %s", ex.posOf(c.Site))
			}
			out[i] = lowerByte(b)
		}
		return c.ret(StringV{B: out})
	}
	Stubs["math.Trunc"] = func(ex *Exec, c *CallCtx) []*callResult {
		return c.ret(term.FpRoundToIntegral(c.Args[0].(*term.Term), 0))
	}
	Stubs["math.Floor"] = func(ex *Exec, c *CallCtx) []*callResult {
		return c.ret(term.FpRoundToIntegral(c.Args[0].(*term.Term), 1))
	}
	Stubs["math.IsNaN"] = func(ex *Exec, c *CallCtx) []*callResult {
		return c.ret(term.FpIsNaN(c.Args[0].(*term.Term)))
	}
	Stubs["math.IsInf"] = func(ex *Exec, c *CallCtx) []*callResult {
		x := c.Args[0].(*term.Term)
		sign, ok := ex.concreteInt(c.St, c.Args[1].(*term.Term), true)
		if !ok {
			abort("UNSUPPORTED", "math.IsInf with symbolic sign")
		}
		inf := term.FpIsInf(x)
		zero := term.FPConst64(0)
		switch {
		case sign > 0:
			return c.ret(term.And(inf, term.FpCmp(term.OFpLt, zero, x)))
		case sign < 0:
			return c.ret(term.And(inf, term.FpCmp(term.OFpLt, x, zero)))
		}
		return c.ret(inf)
	}
}

// ---- unicode predicates (Latin-1 by table, computed from the real functions) and strings.IndexFunc ----

func latin1Pred(f func(rune) bool, r *term.Term) *term.Term {
	var alts []*term.Term
	w := r.W()
	for lo := 0; lo < 256; {
		if !f(rune(lo)) {
			lo++
			continue
		}
		hi := lo
		for hi+1 < 256 && f(rune(hi+1)) {
			hi++
		}
		if lo == hi {
			alts = append(alts, term.Eq(r, term.Const(w, uint64(lo))))
		} else {
			alts = append(alts, term.And(term.Uge(r, term.Const(w, uint64(lo))), term.Ule(r, term.Const(w, uint64(hi)))))
		}
		lo = hi + 1
	}
	return term.Or(alts...)
}

func init() {
	for name, f := range map[string]func(rune) bool{
		"unicode.IsLetter": unicode.IsLetter, "unicode.IsDigit": unicode.IsDigit, "unicode.IsSpace": unicode.IsSpace,
		"unicode.IsUpper": unicode.IsUpper, "unicode.IsLower": unicode.IsLower, "unicode.IsNumber": unicode.IsNumber,
		"unicode.IsPunct": unicode.IsPunct,
	} {
		f, name := f, name
		Stubs[name] = func(ex *Exec, c *CallCtx) []*callResult {
			r := c.Args[0].(*term.Term)
			ex.precond(c, c.St, name+"-rune-is-latin1", term.Ult(r, term.Const(r.W(), 256)))
			return c.ret(latin1Pred(f, r))
		}
	}
	indexFunc := func(ex *Exec, c *CallCtx, b []*term.Term) []*callResult {
		st := c.St
		for _, x := range b {
			ex.precond(c, st, "IndexFunc-ascii-input", term.Ult(x, term.Const(8, 0x80)))
		}
		res := c64(-1)
		hits := make([]*term.Term, len(b))
		for i, x := range b {
			out := ex.callValue(c.Fr, st, c.Args[1], nil, []Value{term.Zext(x, 24)}, c.Site)
			if len(out) != 1 || out[0].Panic != nil {
				abort("UNSUPPORTED", "IndexFunc predicate with several outcomes at %s", ex.posOf(c.Site))
			}
			st = &State{G: out[0].G, H: out[0].H, F: st.F, Panics: out[0].Panics}
			hits[i] = out[0].Ret.(*term.Term)
		}
		for i := len(b) - 1; i >= 0; i-- {
			res = term.Ite(hits[i], c64(int64(i)), res)
		}
		return []*callResult{{G: st.G, H: st.H, Ret: res, Panics: st.Panics}}
	}
	Stubs["strings.IndexFunc"] = func(ex *Exec, c *CallCtx) []*callResult {
		return indexFunc(ex, c, c.Args[0].(StringV).B)
	}
	Stubs["bytes.IndexFunc"] = func(ex *Exec, c *CallCtx) []*callResult {
		return indexFunc(ex, c, ex.sliceBytes(c.St, c.Args[0].(SliceV)))
	}
	Stubs["strings.ContainsFunc"] = func(ex *Exec, c *CallCtx) []*callResult {
		r := indexFunc(ex, c, c.Args[0].(StringV).B)
		r[0].Ret = term.Sge(r[0].Ret.(*term.Term), c64(0))
		return r
	}
}

// ---- Trim / TrimSpace (ASCII contract) ----

// trimCounts splits the state on how many bytes of b, from the left or from the right, lie in the ASCII cutset.
func (ex *Exec) trimCounts(st *State, b []*term.Term, cut string, left bool) (counts []int, states []*State) {
	inCut := func(x *term.Term) *term.Term {
		var ors []*term.Term
		for i := 0; i < len(cut); i++ {
			ors = append(ors, term.Eq(x, term.Const(8, uint64(cut[i]))))
		}
		return term.Or(ors...)
	}
	n := len(b)
	at := func(j int) *term.Term {
		if left {
			return b[j]
		}
		return b[n-1-j]
	}
	conds := make([]*term.Term, n+1)
	for k := 0; k <= n; k++ {
		var cs []*term.Term
		for j := 0; j < k; j++ {
			cs = append(cs, inCut(at(j)))
		}
		if k < n {
			cs = append(cs, term.Not(inCut(at(k))))
		}
		conds[k] = term.And(cs...)
	}
	for k, s := range ex.splitStates(st, conds, false) {
		if s != nil {
			counts = append(counts, k)
			states = append(states, s)
		}
	}
	return
}

const asciiSpace = "\t\n\v\f\r "

func init() {
	// both ends; returns (state, from, to) triples
	both := func(ex *Exec, c *CallCtx, b []*term.Term, cut string, name string) (sts []*State, from, to []int) {
		if name != "" {
			for _, x := range b {
				// TrimSpace decodes UTF-8 (U+0085, U+00A0, U+2000.. are spaces too): the model covers ASCII input
				ex.precond(c, c.St, name+"-ascii-input", term.Ult(x, term.Const(8, 0x80)))
			}
		}
		lc, ls := ex.trimCounts(c.St, b, cut, true)
		for i, st := range ls {
			rest := b[lc[i]:]
			rc, rs := ex.trimCounts(st, rest, cut, false)
			for j, st2 := range rs {
				sts = append(sts, st2)
				from = append(from, lc[i])
				to = append(to, len(b)-rc[j])
			}
		}
		return
	}
	cutOf := func(v Value) string {
		cut, ok := v.(StringV).Concrete()
		if !ok {
			abort("UNSUPPORTED", "Trim with a symbolic cutset")
		}
		for i := 0; i < len(cut); i++ {
			if cut[i] >= 0x80 {
				abort("UNSUPPORTED", "Trim with a non-ASCII cutset")
			}
		}
		return cut
	}
	strRes := func(s StringV, sts []*State, from, to []int) []*callResult {
		var out []*callResult
		for i, st := range sts {
			out = append(out, resultIn(st, StringV{B: s.B[from[i]:to[i]]}))
		}
		return out
	}
	sliceRes := func(sv SliceV, sts []*State, from, to []int) []*callResult {
		var out []*callResult
		for i, st := range sts {
			// a subslice of the argument (same backing array), as the real functions return
			out = append(out, resultIn(st, SliceV{Obj: sv.Obj, Off: sv.Off + from[i], Len: to[i] - from[i], Cap: sv.Cap - from[i]}))
		}
		return out
	}
	Stubs["strings.Trim"] = func(ex *Exec, c *CallCtx) []*callResult {
		s := c.Args[0].(StringV)
		sts, from, to := both(ex, c, s.B, cutOf(c.Args[1]), "")
		return strRes(s, sts, from, to)
	}
	Stubs["strings.TrimSpace"] = func(ex *Exec, c *CallCtx) []*callResult {
		s := c.Args[0].(StringV)
		sts, from, to := both(ex, c, s.B, asciiSpace, "strings.TrimSpace")
		return strRes(s, sts, from, to)
	}
	Stubs["bytes.Trim"] = func(ex *Exec, c *CallCtx) []*callResult {
		sv := c.Args[0].(SliceV)
		sts, from, to := both(ex, c, ex.sliceBytes(c.St, sv), cutOf(c.Args[1]), "")
		return sliceRes(sv, sts, from, to)
	}
	Stubs["bytes.TrimSpace"] = func(ex *Exec, c *CallCtx) []*callResult {
		sv := c.Args[0].(SliceV)
		sts, from, to := both(ex, c, ex.sliceBytes(c.St, sv), asciiSpace, "bytes.TrimSpace")
		return sliceRes(sv, sts, from, to)
	}
}

// runeCountTerm is utf8.RuneCount as a term (no forking): cnt[i] = 1 + cnt[i + width of the rune decoded at i].
func runeCountTerm(b []*term.Term) *term.Term {
	n := len(b)
	cnt := make([]*term.Term, n+5)
	for i := n; i < n+5; i++ {
		cnt[i] = c64(0)
	}
	for i := n - 1; i >= 0; i-- {
		alts := decodeRuneAlts(b[i:])
		res := term.Add(cnt[i+1], c64(1)) // width 1: ASCII or an invalid encoding
		for _, a := range alts[1:] {
			res = term.Ite(a.cond, term.Add(cnt[i+a.width], c64(1)), res)
		}
		cnt[i] = res
	}
	return cnt[0]
}

func init() {
	Stubs["unicode/utf8.RuneCountInString"] = func(ex *Exec, c *CallCtx) []*callResult {
		return c.ret(runeCountTerm(c.Args[0].(StringV).B))
	}
	Stubs["unicode/utf8.RuneCount"] = func(ex *Exec, c *CallCtx) []*callResult {
		return c.ret(runeCountTerm(ex.sliceBytes(c.St, c.Args[0].(SliceV))))
	}
}

func init() {
	Stubs["strings.Repeat"] = func(ex *Exec, c *CallCtx) []*callResult {
		s := c.Args[0].(StringV)
		n, ok := ex.concreteInt(c.St, c.Args[1].(*term.Term), true)
		if !ok || n < 0 || n*len(s.B) > 1<<20 {
			abort("UNSUPPORTED", "strings.Repeat with a symbolic, negative or huge count")
		}
		out := make([]*term.Term, 0, n*len(s.B))
		for i := 0; i < n; i++ {
			out = append(out, s.B...)
		}
		return c.ret(StringV{B: out})
	}
	containsAny := func(ex *Exec, c *CallCtx, b []*term.Term) []*callResult {
		chars, ok := c.Args[1].(StringV).Concrete()
		if !ok {
			abort("UNSUPPORTED", "ContainsAny with a symbolic character set")
		}
		var ors []*term.Term
		for i := 0; i < len(chars); i++ {
			if chars[i] >= 0x80 {
				abort("UNSUPPORTED", "ContainsAny with a non-ASCII character set")
			}
			for _, x := range b {
				ors = append(ors, term.Eq(x, term.Const(8, uint64(chars[i]))))
			}
		}
		return c.ret(term.Or(ors...))
	}
	Stubs["strings.ContainsAny"] = func(ex *Exec, c *CallCtx) []*callResult {
		return containsAny(ex, c, c.Args[0].(StringV).B)
	}
	Stubs["bytes.ContainsAny"] = func(ex *Exec, c *CallCtx) []*callResult {
		return containsAny(ex, c, ex.sliceBytes(c.St, c.Args[0].(SliceV)))
	}
	indexByte := func(ex *Exec, c *CallCtx, b []*term.Term) []*callResult {
		ch := c.Args[1].(*term.Term)
		res := c64(-1)
		for i := len(b) - 1; i >= 0; i-- {
			res = term.Ite(term.Eq(b[i], term.Resize(ch, 8, false)), c64(int64(i)), res)
		}
		return c.ret(res)
	}
	if _, ok := Stubs["strings.IndexByte"]; !ok {
		Stubs["strings.IndexByte"] = func(ex *Exec, c *CallCtx) []*callResult { return indexByte(ex, c, c.Args[0].(StringV).B) }
	}
	if _, ok := Stubs["bytes.IndexByte"]; !ok {
		Stubs["bytes.IndexByte"] = func(ex *Exec, c *CallCtx) []*callResult {
			return indexByte(ex, c, ex.sliceBytes(c.St, c.Args[0].(SliceV)))
		}
	}
}
