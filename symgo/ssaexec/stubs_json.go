package ssaexec

import (
	"go/types"

	"symgo/term"
)

// A model of encoding/json's token stream (Decoder.Token / More with UseNumber) over input whose structural
// bytes are decidable under the path facts: quotes, brackets, commas, colons, whitespace, the characters of
// numbers and literals. Content bytes (digits, the letters inside strings) may be symbolic. Where a byte's role
// cannot be decided the run stops as UNSUPPORTED: this is a model of JSON over templates, not over arbitrary bytes.

const (
	tokTopValue = iota
	tokArrayStart
	tokArrayValue
	tokArrayComma
	tokObjectStart
	tokObjectKey
	tokObjectColon
	tokObjectValue
	tokObjectComma
)

type jsonDec struct {
	in        []*term.Term
	pos       int
	state     int
	stack     []int
	useNumber bool
	dead      bool // a syntax error was reported; later calls keep failing
}

func (d *jsonDec) clone() *jsonDec {
	n := *d
	n.stack = append([]int(nil), d.stack...)
	return &n
}

func (d *jsonDec) MergeWith(m *merger, o interface{}) (interface{}, bool) {
	e, ok := o.(*jsonDec)
	if !ok || d.pos != e.pos || d.state != e.state || d.useNumber != e.useNumber || d.dead != e.dead || len(d.stack) != len(e.stack) || len(d.in) != len(e.in) {
		return nil, false
	}
	for i := range d.stack {
		if d.stack[i] != e.stack[i] {
			return nil, false
		}
	}
	for i := range d.in {
		if d.in[i] != e.in[i] {
			return nil, false
		}
	}
	return d, true
}

type jsonCtx struct {
	ex *Exec
	c  *CallCtx
}

// is decides a byte predicate or stops the run.
func (j *jsonCtx) is(p *term.Term, what string) bool {
	switch j.ex.decideCond(j.c.St, p) {
	case 1:
		return true
	case 0:
		return false
	}
	abort("UNSUPPORTED", "JSON model: cannot decide whether an input byte is %s at %s (fully symbolic JSON text is outside the model) [cond %s, %d nodes]", what, j.ex.posOf(j.c.Site), p, term.Size(p))
	return false
}

func (j *jsonCtx) eq(b *term.Term, c byte) bool {
	return j.is(term.Eq(b, term.Const(8, uint64(c))), "'"+string(c)+"'")
}

func (j *jsonCtx) space(b *term.Term) bool {
	return j.is(term.Or(term.Eq(b, term.Const(8, ' ')), term.Eq(b, term.Const(8, '\t')), term.Eq(b, term.Const(8, '\r')), term.Eq(b, term.Const(8, '\n'))), "white space")
}

func (j *jsonCtx) digit(b *term.Term) bool {
	return j.is(term.And(term.Uge(b, term.Const(8, '0')), term.Ule(b, term.Const(8, '9'))), "a digit")
}

func (j *jsonCtx) peek(d *jsonDec) (int, bool) {
	p := d.pos
	for p < len(d.in) && j.space(d.in[p]) {
		p++
	}
	return p, p < len(d.in)
}

func (ex *Exec) jsonErr(st *State, msg string) IfaceV { return ex.newError(st, "json: "+msg) }

func (ex *Exec) ioEOF(st *State) IfaceV {
	g := ex.Prog.ImportedPackage("io").Var("EOF")
	v, _ := st.H.Load(PtrV{Obj: ex.globalObj(st, g)}).(IfaceV)
	return v
}

// scanValue reads one scalar JSON value starting at p (not '{' or '['). It returns the token and the next position.
func (j *jsonCtx) scanValue(d *jsonDec, p int) (tok Value, next int, errMsg string) {
	in := d.in
	b := in[p]
	switch {
	case j.eq(b, '"'):
		q := p + 1
		for {
			if q >= len(in) {
				return nil, 0, "unexpected end of JSON input"
			}
			c := in[q]
			if j.eq(c, '"') {
				break
			}
			if j.eq(c, '\\') {
				abort("UNSUPPORTED", "JSON model: string escapes")
			}
			if j.is(term.Ult(c, term.Const(8, 0x20)), "a control character") {
				return nil, 0, "invalid character in string literal"
			}
			// invalid UTF-8 is replaced by U+FFFD by the real decoder: require ASCII for symbolic content
			if !j.is(term.Ult(c, term.Const(8, 0x80)), "ASCII") {
				abort("UNSUPPORTED", "JSON model: non-ASCII string content")
			}
			q++
		}
		return IfaceV{T: types.Typ[types.String], V: StringV{B: in[p+1 : q]}}, q + 1, ""
	case j.eq(b, '-') || j.digit(b):
		q := p
		if j.eq(in[q], '-') {
			q++
			if q >= len(in) {
				return nil, 0, "unexpected end of JSON input"
			}
			if !j.digit(in[q]) {
				return nil, 0, "invalid character in numeric literal"
			}
		}
		if q+1 >= len(in) || !j.digit(in[q+1]) {
			// a single integer digit: "0" and "7" scan alike
			q++
		} else if j.eq(in[q], '0') {
			q++
		} else {
			for q < len(in) && j.digit(in[q]) {
				q++
			}
		}
		if q < len(in) && j.eq(in[q], '.') {
			q++
			if q >= len(in) {
				return nil, 0, "unexpected end of JSON input"
			}
			if !j.digit(in[q]) {
				return nil, 0, "invalid character after decimal point in numeric literal"
			}
			for q < len(in) && j.digit(in[q]) {
				q++
			}
		}
		if q < len(in) && (j.eq(in[q], 'e') || j.eq(in[q], 'E')) {
			q++
			if q < len(in) && (j.eq(in[q], '+') || j.eq(in[q], '-')) {
				q++
			}
			if q >= len(in) {
				return nil, 0, "unexpected end of JSON input"
			}
			if !j.digit(in[q]) {
				return nil, 0, "invalid character in exponent of numeric literal"
			}
			for q < len(in) && j.digit(in[q]) {
				q++
			}
		}
		// what follows a number: inside a container it must be white space, ',' or the closing bracket;
		// at top level the complaint about any other byte is deferred to the next call (and so never seen here)
		if q < len(in) && len(d.stack) > 0 {
			c := in[q]
			if !(j.space(c) || j.eq(c, ',') || j.eq(c, ']') || j.eq(c, '}')) {
				return nil, 0, "invalid character after value"
			}
		}
		if !d.useNumber {
			abort("UNSUPPORTED", "JSON model: numbers without UseNumber")
		}
		num := j.ex.NamedType("encoding/json", "Number")
		return IfaceV{T: num, V: StringV{B: in[p:q]}}, q, ""
	}
	for _, lit := range []struct {
		text string
		val  Value
	}{{"true", IfaceV{T: types.Typ[types.Bool], V: term.True()}}, {"false", IfaceV{T: types.Typ[types.Bool], V: term.False()}}, {"null", IfaceV{}}} {
		if !j.eq(b, lit.text[0]) {
			continue
		}
		for k := 1; k < len(lit.text); k++ {
			if p+k >= len(in) {
				return nil, 0, "unexpected end of JSON input"
			}
			if !j.eq(in[p+k], lit.text[k]) {
				return nil, 0, "invalid character in literal " + lit.text
			}
		}
		q := p + len(lit.text)
		if q < len(in) && len(d.stack) > 0 {
			c := in[q]
			if !(j.space(c) || j.eq(c, ',') || j.eq(c, ']') || j.eq(c, '}')) {
				return nil, 0, "invalid character after value"
			}
		}
		return lit.val, q, ""
	}
	return nil, 0, "invalid character looking for beginning of value"
}

var ex0 *Exec

func valueAllowed(s int) bool {
	return s == tokTopValue || s == tokArrayStart || s == tokArrayValue || s == tokObjectValue
}

func valueEnd(s int) int {
	switch s {
	case tokArrayStart, tokArrayValue:
		return tokArrayComma
	case tokObjectValue:
		return tokObjectComma
	}
	return s
}

func init() {
	Stubs["bytes.NewReader"] = func(ex *Exec, c *CallCtx) []*callResult {
		bs := append([]*term.Term(nil), ex.sliceBytes(c.St, c.Args[0].(SliceV))...)
		return c.ret(PtrV{Obj: c.St.H.Alloc(&OpaqueV{Kind: "bytes.Reader", Data: bs})})
	}
	Stubs["encoding/json.NewDecoder"] = func(ex *Exec, c *CallCtx) []*callResult {
		r := c.Args[0].(IfaceV)
		p, ok := r.V.(PtrV)
		if !ok {
			abort("UNSUPPORTED", "json.NewDecoder over %v", r.T)
		}
		o, ok := c.St.H.Load(p).(*OpaqueV)
		if !ok || o.Kind != "bytes.Reader" {
			abort("UNSUPPORTED", "json.NewDecoder over %v", r.T)
		}
		d := &jsonDec{in: o.Data.([]*term.Term)}
		return c.ret(PtrV{Obj: c.St.H.Alloc(&OpaqueV{Kind: "json.Decoder", Data: d})})
	}
	getDec := func(c *CallCtx) (*jsonDec, PtrV) {
		p := c.Args[0].(PtrV)
		return c.St.H.Load(p).(*OpaqueV).Data.(*jsonDec), p
	}
	setDec := func(c *CallCtx, p PtrV, d *jsonDec) {
		c.St.H.Store(p, &OpaqueV{Kind: "json.Decoder", Data: d})
	}
	Stubs["(*encoding/json.Decoder).UseNumber"] = func(ex *Exec, c *CallCtx) []*callResult {
		d, p := getDec(c)
		n := d.clone()
		n.useNumber = true
		setDec(c, p, n)
		return c.ret(nil)
	}
	Stubs["(*encoding/json.Decoder).More"] = func(ex *Exec, c *CallCtx) []*callResult {
		d, _ := getDec(c)
		j := &jsonCtx{ex, c}
		q, ok := j.peek(d)
		if !ok {
			return c.ret(term.False())
		}
		return c.ret(term.Bool(!(j.eq(d.in[q], ']') || j.eq(d.in[q], '}'))))
	}
	Stubs["(*encoding/json.Decoder).Token"] = func(ex *Exec, c *CallCtx) []*callResult {
		ex0 = ex
		d0, p := getDec(c)
		d := d0.clone()
		j := &jsonCtx{ex, c}
		fail := func(err IfaceV) []*callResult {
			d.dead = true
			setDec(c, p, d)
			return c.ret(TupleV{IfaceV{}, err})
		}
		if d.dead {
			return fail(ex.jsonErr(c.St, "syntax error (repeated)"))
		}
		delim := ex.NamedType("encoding/json", "Delim")
		for {
			q, ok := j.peek(d)
			if !ok {
				return fail(ex.ioEOF(c.St))
			}
			d.pos = q
			b := d.in[q]
			switch {
			case j.eq(b, '['):
				if !valueAllowed(d.state) {
					return fail(ex.jsonErr(c.St, "invalid character '[' "))
				}
				d.pos++
				d.stack = append(d.stack, d.state)
				d.state = tokArrayStart
				setDec(c, p, d)
				return c.ret(TupleV{IfaceV{T: delim, V: term.Const(32, '[')}, IfaceV{}})
			case j.eq(b, ']'):
				if d.state != tokArrayStart && d.state != tokArrayComma {
					return fail(ex.jsonErr(c.St, "invalid character ']'"))
				}
				d.pos++
				d.state = d.stack[len(d.stack)-1]
				d.stack = d.stack[:len(d.stack)-1]
				d.state = valueEnd(d.state)
				setDec(c, p, d)
				return c.ret(TupleV{IfaceV{T: delim, V: term.Const(32, ']')}, IfaceV{}})
			case j.eq(b, '{'):
				if !valueAllowed(d.state) {
					return fail(ex.jsonErr(c.St, "invalid character '{'"))
				}
				d.pos++
				d.stack = append(d.stack, d.state)
				d.state = tokObjectStart
				setDec(c, p, d)
				return c.ret(TupleV{IfaceV{T: delim, V: term.Const(32, '{')}, IfaceV{}})
			case j.eq(b, '}'):
				if d.state != tokObjectStart && d.state != tokObjectComma {
					return fail(ex.jsonErr(c.St, "invalid character '}'"))
				}
				d.pos++
				d.state = d.stack[len(d.stack)-1]
				d.stack = d.stack[:len(d.stack)-1]
				d.state = valueEnd(d.state)
				setDec(c, p, d)
				return c.ret(TupleV{IfaceV{T: delim, V: term.Const(32, '}')}, IfaceV{}})
			case j.eq(b, ':'):
				if d.state != tokObjectColon {
					return fail(ex.jsonErr(c.St, "invalid character ':'"))
				}
				d.pos++
				d.state = tokObjectValue
				continue
			case j.eq(b, ','):
				if d.state == tokArrayComma {
					d.pos++
					d.state = tokArrayValue
					continue
				}
				if d.state == tokObjectComma {
					d.pos++
					d.state = tokObjectKey
					continue
				}
				return fail(ex.jsonErr(c.St, "invalid character ','"))
			}
			isKey := j.eq(b, '"') && (d.state == tokObjectStart || d.state == tokObjectKey)
			if !isKey && !valueAllowed(d.state) {
				return fail(ex.jsonErr(c.St, "invalid character looking for beginning of value"))
			}
			tok, next, msg := j.scanValue(d, q)
			if msg != "" {
				return fail(ex.jsonErr(c.St, msg))
			}
			d.pos = next
			if isKey {
				d.state = tokObjectColon
			} else {
				d.state = valueEnd(d.state)
			}
			setDec(c, p, d)
			return c.ret(TupleV{tok, IfaceV{}})
		}
	}
	Stubs["(encoding/json.Number).Int64"] = func(ex *Exec, c *CallCtx) []*callResult {
		sub := &CallCtx{St: c.St, Fr: c.Fr, Args: []Value{c.Args[0], term.Const(64, 10), term.Const(64, 64)}, Site: c.Site, Fn: c.Fn, Name: c.Name}
		return ex.parseIntStub(sub, 0)
	}
	Stubs["(encoding/json.Number).Float64"] = func(ex *Exec, c *CallCtx) []*callResult {
		// only integer syntax is modelled: an exact (wide) integer converted with round-to-nearest-even is what
		// strconv.ParseFloat returns for a decimal integer
		s := c.Args[0].(StringV)
		j := &jsonCtx{ex, c}
		if len(s.B) == 0 || len(s.B) > 20 {
			abort("UNSUPPORTED", "json.Number.Float64 of %d bytes", len(s.B))
		}
		v := term.Const(70, 0)
		for _, b := range s.B {
			if !j.digit(b) {
				abort("UNSUPPORTED", "json.Number.Float64 of non-integer syntax")
			}
			v = term.Add(term.Mul(v, term.Const(70, 10)), term.Zext(term.Sub(b, term.Const(8, '0')), 62))
		}
		return c.ret(TupleV{term.FpFromBV(v, 64, false), IfaceV{}})
	}
	ExtGlobals["io.EOF"] = func(ex *Exec, st *State) Value { return ex.newError(st, "EOF") }
	ExtGlobals["io.ErrUnexpectedEOF"] = func(ex *Exec, st *State) Value { return ex.newError(st, "unexpected EOF") }
	ExtGlobals["strconv.ErrSyntax"] = func(ex *Exec, st *State) Value { return ex.newError(st, "invalid syntax") }
	ExtGlobals["strconv.ErrRange"] = func(ex *Exec, st *State) Value { return ex.newError(st, "value out of range") }
}
