package ssaexec

import (
	"fmt"
	"go/token"
	"go/types"
	"os"

	"golang.org/x/tools/go/ssa"

	"symgo/term"
)

func runtimePanic(site, msg string) *PanicInfo {
	return &PanicInfo{Val: IfaceV{T: types.Typ[types.String], V: Str("runtime error: " + msg)}, Site: site, Runtime: true}
}

// guardOK splits off a runtime panic: it returns false when the state certainly panics, and otherwise
// continues in st with ok assumed (recording the panic side when it is not certainly impossible).
func (ex *Exec) guardOK(fr *frame, st *State, ok *term.Term, ins ssa.Instruction, msg string) bool {
	switch ex.decideCond(st, ok) {
	case 1:
		return true
	case 0:
		ex.raise(fr, st, runtimePanic(ex.pos(ins), msg))
		return false
	}
	bad := st.fork(term.Not(ok))
	if ex.feasible(bad.G, false) {
		ex.raise(fr, bad, runtimePanic(ex.pos(ins), msg))
	}
	st.G = term.And(st.G, ok)
	return true
}

func one(st *State) []*State { return []*State{st} }

// step executes a non-terminator instruction; it returns the continuing states (usually just st).
func (ex *Exec) step(fr *frame, st *State, ins ssa.Instruction) []*State {
	env := st.F.Env
	switch x := ins.(type) {
	case *ssa.Alloc:
		env[x] = PtrV{Obj: st.H.Alloc(Zero(x.Type().(*types.Pointer).Elem()))}
	case *ssa.Store:
		p := ex.get(fr, st, x.Addr).(PtrV)
		if p.Obj == 0 {
			ex.raise(fr, st, runtimePanic(ex.pos(x), "nil pointer dereference"))
			return nil
		}
		sv := ex.get(fr, st, x.Val)
		st.H.Store(p, sv)
		if g, ok := x.Addr.(*ssa.Global); ok {
			if ex.RecordGlobals {
				ex.Events = append(ex.Events, Event{Kind: "write", Obj: "global:" + g.Name(), Site: ex.pos(x)})
			}
			if pv, isPtr := sv.(PtrV); isPtr && pv.Obj != 0 {
				// an object stored into a package variable is shared from then on (e.g. a lazily created generator)
				ex.Events = append(ex.Events, Event{Kind: "publish", Obj: fmt.Sprint(pv.Obj), Site: ex.pos(x)})
			}
		}
	case *ssa.UnOp:
		return ex.unop(fr, st, x)
	case *ssa.BinOp:
		a, b := ex.get(fr, st, x.X), ex.get(fr, st, x.Y)
		v, ok := ex.binop(fr, st, x, x.Op, x.X.Type(), x.Y.Type(), a, b)
		if !ok {
			return nil
		}
		env[x] = v
	case *ssa.Convert:
		return ex.convert(fr, st, x)
	case *ssa.ChangeType:
		env[x] = ex.get(fr, st, x.X)
	case *ssa.ChangeInterface:
		env[x] = ex.get(fr, st, x.X)
	case *ssa.MakeInterface:
		env[x] = IfaceV{T: x.X.Type(), V: ex.get(fr, st, x.X)}
	case *ssa.MakeClosure:
		bind := make([]Value, len(x.Bindings))
		for i, b := range x.Bindings {
			bind[i] = ex.get(fr, st, b)
		}
		env[x] = FuncV{Fn: x.Fn.(*ssa.Function), Bind: bind}
	case *ssa.MakeSlice:
		l, ok1 := ex.concreteInt(st, ex.get(fr, st, x.Len).(*term.Term), true)
		c, ok2 := ex.concreteInt(st, ex.get(fr, st, x.Cap).(*term.Term), true)
		if !ok1 || !ok2 {
			abort("UNSUPPORTED", "make with symbolic size at %s", ex.pos(x))
		}
		elem := x.Type().Underlying().(*types.Slice).Elem()
		cells := make([]Value, c)
		for i := range cells {
			cells[i] = Zero(elem)
		}
		env[x] = SliceV{Obj: st.H.Alloc(&ArrayV{E: cells}), Len: l, Cap: c}
	case *ssa.MakeMap:
		env[x] = MapV{Obj: st.H.Alloc(&mapData{})}
	case *ssa.MapUpdate:
		m := ex.get(fr, st, x.Map).(MapV)
		md := st.H.Get(m.Obj).(*mapData)
		k, v := ex.get(fr, st, x.Key), ex.get(fr, st, x.Value)
		nd := &mapData{Keys: append(append([]Value(nil), md.Keys...), k), Vals: append(append([]Value(nil), md.Vals...), v)}
		for i, ek := range md.Keys {
			if e := ex.eqVal(ek, k); e.IsTrue() {
				nd = &mapData{Keys: md.Keys, Vals: append([]Value(nil), md.Vals...)}
				nd.Vals[i] = v
				break
			} else if !e.IsFalse() {
				abort("UNSUPPORTED", "map update with symbolic key at %s", ex.pos(x))
			}
		}
		st.H.Set(m.Obj, nd)
	case *ssa.Lookup:
		return ex.lookup(fr, st, x)
	case *ssa.FieldAddr:
		p := ex.get(fr, st, x.X).(PtrV)
		if p.Obj == 0 {
			ex.raise(fr, st, runtimePanic(ex.pos(x), "nil pointer dereference"))
			return nil
		}
		env[x] = p.Sub(x.Field)
	case *ssa.Field:
		env[x] = ex.get(fr, st, x.X).(*StructV).F[x.Field]
	case *ssa.IndexAddr:
		return ex.indexAddr(fr, st, x)
	case *ssa.Index:
		return ex.index(fr, st, x)
	case *ssa.Slice:
		return ex.slice(fr, st, x)
	case *ssa.Extract:
		env[x] = ex.get(fr, st, x.Tuple).(TupleV)[x.Index]
	case *ssa.TypeAssert:
		return ex.typeAssert(fr, st, x)
	case *ssa.Range:
		v := ex.get(fr, st, x.X)
		switch v.(type) {
		case StringV:
			env[x] = RangeV{Obj: st.H.Alloc(TupleV{v, term.Const(64, 0)})}
		default:
			abort("UNSUPPORTED", "range over %T at %s", v, ex.pos(x))
		}
	case *ssa.Next:
		return ex.next(fr, st, x)
	case *ssa.Defer:
		d := ex.prepareCall(fr, st, &x.Call)
		st.F.Defers = append(st.F.Defers, d)
	case *ssa.RunDefers:
		return ex.runDefers(fr, st)
	case *ssa.Call:
		d := ex.prepareCall(fr, st, &x.Call)
		results := ex.callValue(fr, st, d.fn, d.method, d.args, x)
		if len(results) > 1 && fr.depth == 0 && ex.PruneCalls {
			// several shapes came back to the harness: drop the ones the solver refutes before they multiply
			kept := results[:0]
			for _, r := range results {
				if ex.solverFeasible(r.G, true) {
					kept = append(kept, r)
				}
			}
			results = kept
		}
		var out []*State
		for i, r := range results {
			var ns *State
			if i == len(results)-1 {
				ns = &State{G: r.G, H: r.H, F: st.F, Panics: r.Panics}
			} else {
				ns = &State{G: r.G, H: r.H, F: st.F.clone(), Panics: r.Panics}
			}
			if r.Panic != nil {
				ex.raise(fr, ns, r.Panic)
				continue
			}
			if x.Type() != nil {
				if tup, ok := x.Type().(*types.Tuple); !ok || tup.Len() > 0 {
					ns.F.Env[x] = r.Ret
				}
			}
			out = append(out, ns)
		}
		if len(out) == 1 && len(results) == 1 {
			// keep identity so the caller continues in place
			*st = *out[0]
			return one(st)
		}
		return out
	default:
		abort("UNSUPPORTED", "instruction %T (%s) at %s", ins, ins, ex.pos(ins))
	}
	return one(st)
}

func (ex *Exec) unop(fr *frame, st *State, x *ssa.UnOp) []*State {
	v := ex.get(fr, st, x.X)
	switch x.Op {
	case token.MUL:
		p := v.(PtrV)
		if p.Obj == 0 {
			ex.raise(fr, st, runtimePanic(ex.pos(x), "nil pointer dereference"))
			return nil
		}
		lv := st.H.Load(p)
		if sv, isSlice := lv.(SliceV); isSlice {
			if b, isBasic := x.Type().Underlying().(*types.Basic); isBasic && b.Info()&types.IsString != 0 {
				// *(*string)(unsafe.Pointer(&b)): a string sharing the slice's backing array
				lv = StringV{B: ex.sliceBytes(st, sv), Alias: sv.Obj}
			}
		}
		st.F.Env[x] = lv
		if g, ok := x.X.(*ssa.Global); ok && ex.RecordGlobals {
			ex.Events = append(ex.Events, Event{Kind: "read", Obj: "global:" + g.Name(), Site: ex.pos(x)})
		}
	case token.NOT:
		st.F.Env[x] = term.Not(v.(*term.Term))
	case token.SUB:
		t := v.(*term.Term)
		if t.Sort.K == term.KFP {
			st.F.Env[x] = term.FpNeg(t)
		} else {
			st.F.Env[x] = term.Neg(t)
		}
	case token.XOR:
		st.F.Env[x] = term.BNot(v.(*term.Term))
	default:
		abort("UNSUPPORTED", "unary %s at %s", x.Op, ex.pos(x))
	}
	return one(st)
}

// eqVal is Go's == on two values of the same static type.
func (ex *Exec) eqVal(a, b Value) *term.Term {
	switch x := a.(type) {
	case *term.Term:
		y := b.(*term.Term)
		if x.Sort.K == term.KFP {
			return term.FpCmp(term.OFpEq, x, y)
		}
		return term.Eq(x, y)
	case StringV:
		y := b.(StringV)
		if len(x.B) != len(y.B) {
			return term.False()
		}
		cs := make([]*term.Term, len(x.B))
		for i := range cs {
			cs[i] = term.Eq(x.B[i], y.B[i])
		}
		return term.And(cs...)
	case *StructV:
		y := b.(*StructV)
		cs := make([]*term.Term, len(x.F))
		for i := range cs {
			cs[i] = ex.eqVal(x.F[i], y.F[i])
		}
		return term.And(cs...)
	case *ArrayV:
		y := b.(*ArrayV)
		cs := make([]*term.Term, len(x.E))
		for i := range cs {
			cs[i] = ex.eqVal(x.E[i], y.E[i])
		}
		return term.And(cs...)
	case PtrV:
		y, ok := b.(PtrV)
		if !ok {
			return term.False()
		}
		return term.Bool(x.Obj == y.Obj && pathEq(x.Path, y.Path))
	case IfaceV:
		y, ok := b.(IfaceV)
		if !ok {
			// comparison of an interface with a concrete value wrapped by MakeInterface is done by the compiler
			return term.False()
		}
		if x.T == nil || y.T == nil {
			return term.Bool(x.T == nil && y.T == nil)
		}
		if !types.Identical(x.T, y.T) {
			return term.False()
		}
		return ex.eqVal(x.V, y.V)
	case SliceV:
		// only comparison with nil is legal
		y := b.(SliceV)
		return term.Bool(x.Obj == 0 && y.Obj == 0)
	case FuncV:
		y := b.(FuncV)
		return term.Bool(x.Fn == nil && x.Builtin == "" && x.Stub == "" && y.Fn == nil && y.Builtin == "" && y.Stub == "")
	case MapV:
		y := b.(MapV)
		return term.Bool(x.Obj == 0 && y.Obj == 0)
	case *OpaqueV:
		y, ok := b.(*OpaqueV)
		return term.Bool(ok && x == y)
	case nil:
		return term.Bool(b == nil)
	}
	abort("UNSUPPORTED", "== on %T", a)
	return nil
}

// strLess is lexicographic a < b on symbolic strings of concrete lengths.
func strLess(a, b StringV) *term.Term {
	n := len(a.B)
	if len(b.B) < n {
		n = len(b.B)
	}
	// result = first differing position decides; if none, shorter is less
	res := term.Bool(len(a.B) < len(b.B))
	for i := n - 1; i >= 0; i-- {
		res = term.Ite(term.Eq(a.B[i], b.B[i]), res, term.Ult(a.B[i], b.B[i]))
	}
	return res
}

func (ex *Exec) binop(fr *frame, st *State, ins ssa.Instruction, op token.Token, tx, ty types.Type, a, b Value) (Value, bool) {
	switch op {
	case token.EQL:
		return ex.eqVal(a, b), true
	case token.NEQ:
		return term.Not(ex.eqVal(a, b)), true
	}
	if sa, ok := a.(StringV); ok {
		sb := b.(StringV)
		switch op {
		case token.ADD:
			return StringV{B: append(append([]*term.Term(nil), sa.B...), sb.B...)}, true
		case token.LSS:
			return strLess(sa, sb), true
		case token.GTR:
			return strLess(sb, sa), true
		case token.LEQ:
			return term.Not(strLess(sb, sa)), true
		case token.GEQ:
			return term.Not(strLess(sa, sb)), true
		}
		abort("UNSUPPORTED", "string op %s", op)
	}
	x, y := a.(*term.Term), b.(*term.Term)
	if x.Sort.K == term.KBool {
		switch op {
		case token.AND, token.LAND:
			return term.And(x, y), true
		case token.OR, token.LOR:
			return term.Or(x, y), true
		case token.XOR:
			return term.Not(term.Eq(x, y)), true
		}
		abort("UNSUPPORTED", "bool op %s", op)
	}
	if x.Sort.K == term.KFP {
		switch op {
		case token.ADD:
			return term.FpArith(term.OFpAdd, x, y), true
		case token.SUB:
			return term.FpArith(term.OFpSub, x, y), true
		case token.MUL:
			return term.FpArith(term.OFpMul, x, y), true
		case token.QUO:
			return term.FpArith(term.OFpDiv, x, y), true
		case token.LSS:
			return term.FpCmp(term.OFpLt, x, y), true
		case token.LEQ:
			return term.FpCmp(term.OFpLe, x, y), true
		case token.GTR:
			return term.FpCmp(term.OFpLt, y, x), true
		case token.GEQ:
			return term.FpCmp(term.OFpLe, y, x), true
		}
		abort("UNSUPPORTED", "float op %s", op)
	}
	sg := isSigned(tx)
	w := x.W()
	switch op {
	case token.ADD:
		return term.Add(x, y), true
	case token.SUB:
		return term.Sub(x, y), true
	case token.MUL:
		return term.Mul(x, y), true
	case token.QUO, token.REM:
		if !ex.guardOK(fr, st, term.Ne(y, term.Const(w, 0)), ins, "integer divide by zero") {
			return nil, false
		}
		switch {
		case op == token.QUO && sg:
			return term.SDiv(x, y), true
		case op == token.QUO:
			return term.UDiv(x, y), true
		case sg:
			return term.SRem(x, y), true
		default:
			return term.URem(x, y), true
		}
	case token.AND:
		return term.BAnd(x, y), true
	case token.OR:
		return term.BOr(x, y), true
	case token.XOR:
		return term.BXor(x, y), true
	case token.AND_NOT:
		return term.BAnd(x, term.BNot(y)), true
	case token.SHL, token.SHR:
		ysg := isSigned(ty)
		if ysg {
			if !ex.guardOK(fr, st, term.Sge(y, term.Const(y.W(), 0)), ins, "negative shift amount") {
				return nil, false
			}
		}
		// bring the count to x's width, saturating
		var cnt *term.Term
		var big *term.Term = term.False()
		if y.W() > w {
			big = term.Uge(y, term.Const(y.W(), uint64(w)))
			cnt = term.Extract(y, w-1, 0)
		} else {
			cnt = term.Zext(y, w-y.W())
			big = term.Uge(cnt, term.Const(w, uint64(w)))
		}
		var r *term.Term
		switch {
		case op == token.SHL:
			r = term.Ite(big, term.Const(w, 0), term.Shl(x, cnt))
		case sg:
			r = term.Ite(big, term.AShr(x, term.Const(w, uint64(w-1))), term.AShr(x, cnt))
		default:
			r = term.Ite(big, term.Const(w, 0), term.LShr(x, cnt))
		}
		return r, true
	case token.LSS:
		if sg {
			return term.Slt(x, y), true
		}
		return term.Ult(x, y), true
	case token.LEQ:
		if sg {
			return term.Sle(x, y), true
		}
		return term.Ule(x, y), true
	case token.GTR:
		if sg {
			return term.Sgt(x, y), true
		}
		return term.Ugt(x, y), true
	case token.GEQ:
		if sg {
			return term.Sge(x, y), true
		}
		return term.Uge(x, y), true
	}
	abort("UNSUPPORTED", "binary op %s", op)
	return nil, false
}

// cvtFloatToInt models the amd64 code go1.23 emits for float -> integer conversions (measured on this machine:
// CVTTSD2SQ for 64-bit and uint32 destinations, CVTTSD2SL for int32 and all 8/16-bit destinations, the
// "subtract 2^63 and set the top bit" sequence for uint64; out-of-range and NaN give the x86 "indefinite" value).
func cvtFloatToInt(f *term.Term, w int, signed bool) *term.Term {
	f = term.FpToFp(f, 64) // float32 widens exactly
	two63 := term.FPConst64(9223372036854775808.0)
	cvt64 := func(x *term.Term) *term.Term {
		inr := term.And(term.FpCmp(term.OFpLe, term.FpNeg(two63), x), term.FpCmp(term.OFpLt, x, two63))
		return term.Ite(inr, term.FpToBVRaw(x, 64, true), term.Const(64, 1<<63))
	}
	cvt32 := func(x *term.Term) *term.Term {
		lo := term.FPConst64(-2147483649.0)
		hi := term.FPConst64(2147483648.0)
		inr := term.And(term.FpCmp(term.OFpLt, lo, x), term.FpCmp(term.OFpLt, x, hi))
		return term.Ite(inr, term.Extract(term.FpToBVRaw(x, 64, true), 31, 0), term.Const(32, 1<<31))
	}
	switch {
	case w == 64 && signed:
		return cvt64(f)
	case w == 64:
		small := term.FpCmp(term.OFpLt, f, two63)
		return term.Ite(small, cvt64(f), term.BOr(cvt64(term.FpArith(term.OFpSub, f, two63)), term.Const(64, 1<<63)))
	case w == 32 && !signed:
		return term.Extract(cvt64(f), 31, 0)
	default:
		return term.Extract(cvt32(f), w-1, 0)
	}
}

func (ex *Exec) convert(fr *frame, st *State, x *ssa.Convert) []*State {
	v := ex.get(fr, st, x.X)
	src, dst := x.X.Type().Underlying(), x.Type().Underlying()
	env := st.F.Env
	switch d := dst.(type) {
	case *types.Basic:
		switch {
		case d.Info()&types.IsString != 0:
			switch s := src.(type) {
			case *types.Slice:
				sv := v.(SliceV)
				if eb, ok := s.Elem().Underlying().(*types.Basic); ok && eb.Kind() == types.Int32 {
					abort("UNSUPPORTED", "string([]rune) at %s", ex.pos(x))
				}
				env[x] = StringV{B: ex.sliceBytes(st, sv)}
			case *types.Basic:
				if s.Info()&types.IsString != 0 {
					env[x] = v
				} else if s.Info()&types.IsInteger != 0 {
					t := v.(*term.Term)
					enc, ok := ex.encodeRune(st, t)
					if !ok {
						abort("UNSUPPORTED", "string(rune) with symbolic wide rune at %s", ex.pos(x))
					}
					env[x] = StringV{B: enc}
				}
			default:
				abort("UNSUPPORTED", "convert %v -> string", src)
			}
		case d.Info()&types.IsInteger != 0:
			t := v.(*term.Term)
			w := basicWidth(d)
			if t.Sort.K == term.KFP {
				if r := ex.fpQuotientCut(st, t, w, isSigned(dst), x); r != nil {
					env[x] = r
				} else {
					env[x] = cvtFloatToInt(t, w, isSigned(dst))
				}
			} else {
				r := term.Resize(t, w, isSigned(src))
				// widening of a truncated value whose range shows the truncation lost nothing: the original value
				if (r.Op == term.OSext || r.Op == term.OZext) && r.W() <= 64 {
					iw := r.Args[0].W()
					if inner := liftTrunc(r.Args[0], r.W(), 0); inner != nil {
						lim := uint64(1) << uint(iw)
						if r.Op == term.OSext {
							lim >>= 1
						}
						if rg := st.facts().rangeOf(inner); rg.hi < lim {
							r = inner
						} else if r.Op == term.OSext {
							if sr, ok := st.facts().srangeOf(inner); ok && fitsSigned(sr.lo, iw) && fitsSigned(sr.hi, iw) {
								r = inner
							}
						}
					}
				}
				env[x] = r
			}
		case d.Info()&types.IsFloat != 0:
			t := v.(*term.Term)
			w := basicWidth(d)
			if t.Sort.K == term.KFP {
				env[x] = term.FpToFp(t, w)
			} else {
				env[x] = term.FpFromBV(t, w, isSigned(src))
			}
		case d.Kind() == types.UnsafePointer:
			env[x] = v
		default:
			abort("UNSUPPORTED", "convert to %v", dst)
		}
	case *types.Slice:
		sb, ok := src.(*types.Basic)
		if !ok || sb.Info()&types.IsString == 0 {
			abort("UNSUPPORTED", "convert %v -> %v", src, dst)
		}
		s := v.(StringV)
		eb := d.Elem().Underlying().(*types.Basic)
		if eb.Kind() == types.Int32 {
			return ex.stringToRunes(fr, st, x, s)
		}
		cells := make([]Value, len(s.B))
		for i, b := range s.B {
			cells[i] = b
		}
		if len(cells) == 0 {
			// []byte("") is non-nil but empty
			env[x] = SliceV{Obj: st.H.Alloc(&ArrayV{}), Len: 0, Cap: 0}
		} else {
			env[x] = SliceV{Obj: st.H.Alloc(&ArrayV{E: cells}), Len: len(cells), Cap: len(cells)}
		}
	case *types.Pointer:
		env[x] = v
	default:
		abort("UNSUPPORTED", "convert %v -> %v at %s", src, dst, ex.pos(x))
	}
	return one(st)
}

func (ex *Exec) sliceBytes(st *State, s SliceV) []*term.Term {
	if s.Len == 0 {
		return nil
	}
	arr := st.H.Get(s.Obj).(*ArrayV)
	out := make([]*term.Term, s.Len)
	for i := range out {
		out[i] = arr.E[s.Off+i].(*term.Term)
	}
	return out
}

func (ex *Exec) sliceElems(st *State, s SliceV) []Value {
	if s.Len == 0 {
		return nil
	}
	arr := st.H.Get(s.Obj).(*ArrayV)
	return arr.E[s.Off : s.Off+s.Len]
}

func (ex *Exec) newSlice(st *State, elems []Value, capacity int) SliceV {
	if capacity < len(elems) {
		capacity = len(elems)
	}
	cells := make([]Value, capacity)
	copy(cells, elems)
	if capacity > len(elems) {
		var z Value = term.Const(8, 0)
		if len(elems) > 0 {
			if t, ok := elems[0].(*term.Term); ok {
				z = zeroLike(t)
			}
		}
		for i := len(elems); i < capacity; i++ {
			cells[i] = z
		}
	}
	return SliceV{Obj: st.H.Alloc(&ArrayV{E: cells}), Len: len(elems), Cap: capacity}
}

func zeroLike(t *term.Term) *term.Term {
	switch t.Sort.K {
	case term.KBool:
		return term.False()
	case term.KFP:
		if t.Sort.W == 32 {
			return term.FPConst32(0)
		}
		return term.FPConst64(0)
	}
	return term.Const(t.W(), 0)
}

func (ex *Exec) byteSlice(st *State, bs []*term.Term) SliceV {
	cells := make([]Value, len(bs))
	for i, b := range bs {
		cells[i] = b
	}
	return SliceV{Obj: st.H.Alloc(&ArrayV{E: cells}), Len: len(bs), Cap: len(bs)}
}

func (ex *Exec) lookup(fr *frame, st *State, x *ssa.Lookup) []*State {
	c := ex.get(fr, st, x.X)
	switch cv := c.(type) {
	case StringV:
		idx := ex.get(fr, st, x.Index).(*term.Term)
		v, ok := ex.selectIndex(fr, st, x, idx, len(cv.B), func(i int) Value { return cv.B[i] })
		if !ok {
			return nil
		}
		st.F.Env[x] = v
	case MapV:
		key := ex.get(fr, st, x.Index)
		vt := x.X.Type().Underlying().(*types.Map).Elem()
		var val Value = Zero(vt)
		found := term.False()
		if cv.Obj != 0 {
			md := st.H.Get(cv.Obj).(*mapData)
			for i := len(md.Keys) - 1; i >= 0; i-- {
				e := ex.eqVal(md.Keys[i], key)
				if e.IsFalse() {
					continue
				}
				m := &merger{c: e, base: 1 << 60, rho: map[int]int{}, rhoInv: map[int]int{}, ha: st.H, hb: st.H}
				nv, ok := m.val(md.Vals[i], val)
				if !ok {
					abort("UNSUPPORTED", "map lookup with unmergeable values at %s", ex.pos(x))
				}
				val = nv
				found = term.Or(found, e)
			}
		}
		if x.CommaOk {
			st.F.Env[x] = TupleV{val, found}
		} else {
			st.F.Env[x] = val
		}
	default:
		abort("UNSUPPORTED", "lookup on %T", c)
	}
	return one(st)
}

// selectIndex reads element idx of a concrete-length sequence, with bounds check; symbolic indices become ite chains.
func (ex *Exec) selectIndex(fr *frame, st *State, ins ssa.Instruction, idx *term.Term, n int, get func(int) Value) (Value, bool) {
	if i, ok := ex.concreteInt(st, idx, true); ok {
		if i < 0 || i >= n {
			ex.raise(fr, st, runtimePanic(ex.pos(ins), fmt.Sprintf("index out of range [%d] with length %d", i, n)))
			return nil, false
		}
		return get(i), true
	}
	inb := term.Ult(idx, term.Const(idx.W(), uint64(n)))
	if !ex.guardOK(fr, st, inb, ins, fmt.Sprintf("index out of range [symbolic] with length %d", n)) {
		return nil, false
	}
	r := st.facts().rangeOf(idx)
	lo, hi := int(r.lo), n-1
	if r.hi < uint64(hi) {
		hi = int(r.hi)
	}
	if lo > hi {
		return nil, false
	}
	val := get(hi)
	for i := hi - 1; i >= lo; i-- {
		m := &merger{c: term.Eq(idx, term.Const(idx.W(), uint64(i))), base: 1 << 60, rho: map[int]int{}, rhoInv: map[int]int{}, ha: st.H, hb: st.H}
		nv, ok := m.val(get(i), val)
		if !ok {
			return nil, ex.splitIndexFail(ins)
		}
		val = nv
	}
	return val, true
}

func (ex *Exec) splitIndexFail(ins ssa.Instruction) bool {
	abort("UNSUPPORTED", "symbolic index over elements of different shape at %s", ex.pos(ins))
	return false
}

func (ex *Exec) indexAddr(fr *frame, st *State, x *ssa.IndexAddr) []*State {
	base := ex.get(fr, st, x.X)
	idx := ex.get(fr, st, x.Index).(*term.Term)
	var n int
	var mk func(i int) PtrV
	switch b := base.(type) {
	case SliceV:
		n = b.Len
		mk = func(i int) PtrV { return PtrV{Obj: b.Obj, Path: []int{b.Off + i}} }
	case PtrV:
		if b.Obj == 0 {
			ex.raise(fr, st, runtimePanic(ex.pos(x), "nil pointer dereference"))
			return nil
		}
		n = int(x.X.Type().Underlying().(*types.Pointer).Elem().Underlying().(*types.Array).Len())
		mk = func(i int) PtrV { return b.Sub(i) }
	default:
		abort("UNSUPPORTED", "IndexAddr on %T", base)
	}
	if i, ok := ex.concreteInt(st, idx, true); ok {
		if i < 0 || i >= n {
			ex.raise(fr, st, runtimePanic(ex.pos(x), fmt.Sprintf("index out of range [%d] with length %d", i, n)))
			return nil
		}
		st.F.Env[x] = mk(i)
		return one(st)
	}
	// symbolic element address: split the state over the feasible indices
	inb := term.Ult(idx, term.Const(idx.W(), uint64(n)))
	if !ex.guardOK(fr, st, inb, x, fmt.Sprintf("index out of range [symbolic] with length %d", n)) {
		return nil
	}
	var out []*State
	for i := 0; i < n; i++ {
		c := term.Eq(idx, term.Const(idx.W(), uint64(i)))
		if !ex.feasibleSt(st, c, false) {
			continue
		}
		s := st.fork(c)
		ex.Forks++
		s.F.Env[x] = mk(i)
		out = append(out, s)
	}
	return out
}

func (ex *Exec) index(fr *frame, st *State, x *ssa.Index) []*State {
	base := ex.get(fr, st, x.X)
	idx := ex.get(fr, st, x.Index).(*term.Term)
	switch b := base.(type) {
	case *ArrayV:
		v, ok := ex.selectIndex(fr, st, x, idx, len(b.E), func(i int) Value { return b.E[i] })
		if !ok {
			return nil
		}
		st.F.Env[x] = v
	case StringV:
		v, ok := ex.selectIndex(fr, st, x, idx, len(b.B), func(i int) Value { return b.B[i] })
		if !ok {
			return nil
		}
		st.F.Env[x] = v
	default:
		abort("UNSUPPORTED", "Index on %T", base)
	}
	return one(st)
}

func (ex *Exec) slice(fr *frame, st *State, x *ssa.Slice) []*State {
	base := ex.get(fr, st, x.X)
	// symbolic bounds: split the state over the values the bound can take (bounded by the capacity)
	for _, bv := range []ssa.Value{x.Low, x.High, x.Max} {
		if bv == nil {
			continue
		}
		t := ex.get(fr, st, bv).(*term.Term)
		if _, ok := ex.concreteInt(st, t, true); ok {
			continue
		}
		limit := 0
		switch b := base.(type) {
		case StringV:
			limit = len(b.B)
		case SliceV:
			limit = b.Cap
		case PtrV:
			limit = int(x.X.Type().Underlying().(*types.Pointer).Elem().Underlying().(*types.Array).Len())
		}
		inb := term.Ule(t, term.Const(t.W(), uint64(limit)))
		if !ex.guardOK(fr, st, inb, x, "slice bounds out of range [symbolic]") {
			return nil
		}
		conds := make([]*term.Term, limit+1)
		for v := 0; v <= limit; v++ {
			conds[v] = term.Eq(t, term.Const(t.W(), uint64(v)))
		}
		var out []*State
		for v, s := range ex.splitStates(st, conds, false) {
			if s != nil {
				// in this state the register equals v: record it so that it is concrete from here on
				s.F.Env[bv] = term.Const(t.W(), uint64(v))
				out = append(out, ex.slice(fr, s, x)...)
			}
		}
		return out
	}
	bound := func(v ssa.Value, def int) (int, bool) {
		if v == nil {
			return def, true
		}
		i, ok := ex.concreteInt(st, ex.get(fr, st, v).(*term.Term), true)
		if !ok {
			abort("UNSUPPORTED", "symbolic slice bound at %s", ex.pos(x))
		}
		return i, true
	}
	fail := func(msg string) []*State {
		ex.raise(fr, st, runtimePanic(ex.pos(x), "slice bounds out of range "+msg))
		return nil
	}
	switch b := base.(type) {
	case StringV:
		lo, _ := bound(x.Low, 0)
		hi, _ := bound(x.High, len(b.B))
		if lo < 0 || hi < lo || hi > len(b.B) {
			return fail(fmt.Sprintf("[%d:%d] with length %d", lo, hi, len(b.B)))
		}
		st.F.Env[x] = StringV{B: b.B[lo:hi]}
	case SliceV:
		lo, _ := bound(x.Low, 0)
		hi, _ := bound(x.High, b.Len)
		mx, _ := bound(x.Max, b.Cap)
		if lo < 0 || hi < lo || hi > b.Cap || mx > b.Cap || mx < hi {
			return fail(fmt.Sprintf("[%d:%d:%d] with capacity %d", lo, hi, mx, b.Cap))
		}
		if b.Obj == 0 {
			st.F.Env[x] = SliceV{}
		} else {
			st.F.Env[x] = SliceV{Obj: b.Obj, Off: b.Off + lo, Len: hi - lo, Cap: mx - lo}
		}
	case PtrV:
		if b.Obj == 0 {
			return fail("nil array pointer")
		}
		n := int(x.X.Type().Underlying().(*types.Pointer).Elem().Underlying().(*types.Array).Len())
		lo, _ := bound(x.Low, 0)
		hi, _ := bound(x.High, n)
		mx, _ := bound(x.Max, n)
		if lo < 0 || hi < lo || hi > n || mx > n {
			return fail(fmt.Sprintf("[%d:%d] with length %d", lo, hi, n))
		}
		if len(b.Path) != 0 {
			abort("UNSUPPORTED", "slicing an array nested inside another object at %s", ex.pos(x))
		}
		st.F.Env[x] = SliceV{Obj: b.Obj, Off: lo, Len: hi - lo, Cap: mx - lo}
	default:
		abort("UNSUPPORTED", "Slice on %T", base)
	}
	return one(st)
}

func (ex *Exec) implements(t types.Type, iface *types.Interface) bool {
	return types.Implements(t, iface)
}

func (ex *Exec) typeAssert(fr *frame, st *State, x *ssa.TypeAssert) []*State {
	v := ex.get(fr, st, x.X).(IfaceV)
	var ok bool
	var res Value
	if it, isI := x.AssertedType.Underlying().(*types.Interface); isI {
		ok = v.T != nil && ex.implements(v.T, it)
		if ok {
			res = v
		} else {
			res = IfaceV{}
		}
	} else {
		ok = v.T != nil && types.Identical(v.T, x.AssertedType)
		if ok {
			res = v.V
		} else {
			res = Zero(x.AssertedType)
		}
	}
	if x.CommaOk {
		st.F.Env[x] = TupleV{res, term.Bool(ok)}
		return one(st)
	}
	if !ok {
		ex.raise(fr, st, runtimePanic(ex.pos(x), fmt.Sprintf("interface conversion: interface is %v, not %v", v.T, x.AssertedType)))
		return nil
	}
	st.F.Env[x] = res
	return one(st)
}

// liftTrunc rebuilds, at width w, a narrower term that was computed from truncations of w-bit values with ring
// operations (which commute with truncation): extract[iw-1:0](liftTrunc(t)) == t always. nil when t has another shape.
func liftTrunc(t *term.Term, w int, depth int) *term.Term {
	if depth > 6 {
		return nil
	}
	switch {
	case t.IsConst():
		return term.Const(w, uint64(t.SVal()))
	case t.Op == term.OExtract && t.B == 0 && t.Args[0].W() == w:
		return t.Args[0]
	case t.Op == term.OAdd || t.Op == term.OSub || t.Op == term.OMul:
		a, b := liftTrunc(t.Args[0], w, depth+1), liftTrunc(t.Args[1], w, depth+1)
		if a == nil || b == nil {
			return nil
		}
		switch t.Op {
		case term.OAdd:
			return term.Add(a, b)
		case term.OSub:
			return term.Sub(a, b)
		}
		return term.Mul(a, b)
	case t.Op == term.OIte:
		a, b := liftTrunc(t.Args[1], w, depth+1), liftTrunc(t.Args[2], w, depth+1)
		if a == nil || b == nil {
			return nil
		}
		return term.Ite(t.Args[0], a, b)
	}
	return nil
}

// fpQuotientCut handles int64(float64(v) / c) for an integer-valued constant c — the idiom of integer division
// through floats (Duration.Hours()/24) — by a cut instead of handing the solver calendar arithmetic and IEEE-754
// division in one query. With [lo, hi] the signed range the path facts give for v (|v| <= 2^53), it emits
//
//	(1) a lemma over a fresh u:  lo <= u <= hi  =>  int64(float(u) [+ 0.0] / c) == u sdiv c      (pure FP query)
//	(2) the range itself:        path guard     =>  lo <= v <= hi                                 (pure BV query)
//
// both as stub-precondition VCs (undecided or refuted = INCONCLUSIVE, never a pass), and continues with v sdiv c.
func (ex *Exec) fpQuotientCut(st *State, f *term.Term, w int, signed bool, site ssa.Instruction) *term.Term {
	if w != 64 || !signed || f.Op != term.OFpDiv || f.Sort.W != 64 || !f.Args[1].IsConst() {
		return nil
	}
	cf := term.FPValue(f.Args[1])
	if cf < 1 || cf > 1<<31 || cf != float64(int64(cf)) {
		return nil
	}
	c := int64(cf)
	X := f.Args[0]
	plusZero := false
	if X.Op == term.OFpAdd && X.Args[1].IsConst() && X.Args[1].Val == 0 { // + (+0.0)
		X, plusZero = X.Args[0], true
	}
	if X.Op != term.OFpFromSBV || X.Args[0].W() != 64 {
		return nil
	}
	v := X.Args[0]
	sr, ok := st.facts().srangeLin(v)
	if !ok || sr.lo < -(1<<53) || sr.hi > 1<<53 {
		return nil
	}
	// the range claim, generalised where possible; the range must then follow from the generalised guard alone
	rg, rv := ex.abstractByFacts(st, v)
	if rg != st.G {
		if sr2, ok2 := factsOf(rg).srangeOf(rv); ok2 && sr2.lo >= -(1<<53) && sr2.hi <= 1<<53 {
			sr = sr2
		} else {
			rg, rv = st.G, v
		}
	}
	if os.Getenv("SYMGO_DEBUG_CUT") != "" {
		fmt.Fprintf(os.Stderr, "CUT v=%s\n  range=[%d,%d]\n  guard=%s\n  out=%s\n", term.Deep(v, 6), sr.lo, sr.hi, term.Deep(rg, 6), term.Deep(rv, 6))
	}
	key := fmt.Sprintf("%d/%v/%d/%d", c, plusZero, sr.lo, sr.hi)
	if ex.cutLemmas == nil {
		ex.cutLemmas = map[string]bool{}
	}
	if !ex.cutLemmas[key] {
		ex.cutLemmas[key] = true
		u := ex.Fresh("cut", term.BV(64))
		fu := term.FpFromBV(u, 64, true)
		if plusZero {
			fu = term.FpArith(term.OFpAdd, fu, term.FPConst64(0))
		}
		lhs := cvtFloatToInt(term.FpArith(term.OFpDiv, fu, f.Args[1]), 64, true)
		ex.VCs = append(ex.VCs, &VC{Label: "stub-precondition:float-quotient-of-integers-is-exact(lemma)", Kind: "precond", Site: ex.posOf(site),
			Guard: term.And(term.Sle(c64(sr.lo), u), term.Sle(u, c64(sr.hi))), Cond: term.Eq(lhs, term.SDiv(u, c64(c)))})
	}
	ex.VCs = append(ex.VCs, &VC{Label: "stub-precondition:operand-range-of-float-quotient", Kind: "precond", Site: ex.posOf(site),
		Guard: rg, Cond: term.And(term.Sle(c64(sr.lo), rv), term.Sle(rv, c64(sr.hi)))})
	// (x*k) sdiv c with c | k and no overflow is x*(k/c)
	if v.Op == term.OMul {
		for i := 0; i < 2; i++ {
			k, x := v.Args[i], v.Args[1-i]
			if k.IsConst() && k.SVal() > 0 && k.SVal()%c == 0 {
				if xr, okx := st.facts().srangeLin(x); okx {
					if _, o1 := mulOv(xr.lo, k.SVal()); o1 {
						if _, o2 := mulOv(xr.hi, k.SVal()); o2 {
							return term.Mul(x, c64(k.SVal()/c))
						}
					}
				}
			}
		}
	}
	return term.SDiv(v, c64(c))
}

// abstractByFacts generalises t for a range query: every subterm the path guard bounds directly (a conjunct
// `k <= s`, `s <= k`) is replaced by a fresh variable carrying just those bounds, arithmetic above it is kept.
// If the generalised claim holds for every value of the fresh variables it holds for t under the guard (the
// bounds are conjuncts of the guard); the solver then sees `lo <= z <= hi => lo' <= 24*z <= hi'` instead of the
// whole calendar. If any subterm has another shape nothing is generalised: the term and the full guard are kept.
func (ex *Exec) abstractByFacts(st *State, t *term.Term) (guard, out *term.Term) {
	f := st.facts()
	guard = term.True()
	needG := false
	memo := map[int]*term.Term{}
	var walk func(t *term.Term) *term.Term
	walk = func(t *term.Term) *term.Term {
		if t.IsConst() || t.Sort.K != term.KBV || t.W() > 64 {
			return t
		}
		if r, ok := memo[t.ID]; ok {
			return r
		}
		var r *term.Term
		sb, hasS := f.getS(t.ID)
		ub, hasU := f.getR(t.ID)
		switch {
		case hasS || hasU:
			r = ex.Fresh("gen", t.Sort)
			if hasS {
				guard = term.And(guard, term.Sle(term.Const(t.W(), uint64(sb.lo)), r), term.Sle(r, term.Const(t.W(), uint64(sb.hi))))
			}
			if hasU {
				guard = term.And(guard, term.Ule(term.Const(t.W(), ub.lo), r), term.Ule(r, term.Const(t.W(), ub.hi)))
			}
		case t.Op == term.OAdd:
			r = term.Add(walk(t.Args[0]), walk(t.Args[1]))
		case t.Op == term.OSub:
			r = term.Sub(walk(t.Args[0]), walk(t.Args[1]))
		case t.Op == term.OMul:
			r = term.Mul(walk(t.Args[0]), walk(t.Args[1]))
		case t.Op == term.OSDiv && t.Args[1].IsConst():
			r = term.SDiv(walk(t.Args[0]), t.Args[1])
		default:
			needG = true
			r = t
		}
		memo[t.ID] = r
		return r
	}
	out = walk(t)
	if needG {
		// a partial generalisation would cut the fresh variables off from what the guard says about the terms they
		// replace (the claim could become false though it holds): keep the term and the guard as they are
		return st.G, t
	}
	return guard, out
}
