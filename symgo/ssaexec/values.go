// Package ssaexec is a shape-concrete, value-symbolic executor for go/ssa with state merging.
package ssaexec

import (
	"fmt"
	"go/types"
	"reflect"
	"sort"

	"golang.org/x/tools/go/ssa"

	"symgo/term"
)

// Value is one of: *term.Term (scalar), *StructV, *ArrayV, PtrV, SliceV, StringV, IfaceV, FuncV, MapV, TupleV, *OpaqueV, RangeV.
type Value interface{}

type StructV struct{ F []Value }
type ArrayV struct{ E []Value }

// PtrV points into heap object Obj at Path (field / element indices); Obj==0 is nil.
type PtrV struct {
	Obj  int
	Path []int
}

// SliceV views elements [Off, Off+Len) of the ArrayV stored in heap object Obj; Obj==0 is the nil slice.
type SliceV struct {
	Obj           int
	Off, Len, Cap int
}

// StringV is an immutable byte string. Alias != 0 marks a string that was produced by reinterpreting the header
// of the byte slice backed by heap object Alias (unsafe): its bytes are a snapshot, the mark lets a harness assert
// that no such string escapes (vAliases).
type StringV struct {
	B     []*term.Term
	Alias int
}

// IfaceV is an interface value with a concrete dynamic type; T==nil is the nil interface.
type IfaceV struct {
	T types.Type
	V Value
}

type FuncV struct {
	Fn      *ssa.Function
	Bind    []Value
	Builtin string
	Stub    string // external function known only by name
}

type MapV struct{ Obj int }
type TupleV []Value

// RangeV is a string/map iterator; its position lives in heap object Obj.
type RangeV struct{ Obj int }

// OpaqueV is a stub-owned immutable value (compiled regexp, zone, decoder handle ...).
type OpaqueV struct {
	Kind string
	Data interface{}
}

type mapData struct {
	Keys []Value
	Vals []Value
}

func Str(s string) StringV {
	b := make([]*term.Term, len(s))
	for i := 0; i < len(s); i++ {
		b[i] = term.Const(8, uint64(s[i]))
	}
	return StringV{B: b}
}

// ConcreteString returns the Go string when every byte is constant.
func (s StringV) Concrete() (string, bool) {
	b := make([]byte, len(s.B))
	for i, t := range s.B {
		if !t.IsConst() {
			return "", false
		}
		b[i] = byte(t.Val)
	}
	return string(b), true
}

func basicWidth(b *types.Basic) int {
	switch b.Kind() {
	case types.Bool, types.UntypedBool:
		return 0
	case types.Int8, types.Uint8:
		return 8
	case types.Int16, types.Uint16:
		return 16
	case types.Int32, types.Uint32, types.UntypedRune:
		return 32
	case types.Int, types.Uint, types.Int64, types.Uint64, types.Uintptr, types.UntypedInt:
		return 64
	case types.Float32:
		return 32
	case types.Float64, types.UntypedFloat:
		return 64
	}
	return -1
}

func isSigned(t types.Type) bool {
	b, ok := t.Underlying().(*types.Basic)
	return ok && b.Info()&types.IsInteger != 0 && b.Info()&types.IsUnsigned == 0
}

func isFloat(t types.Type) bool {
	b, ok := t.Underlying().(*types.Basic)
	return ok && b.Info()&types.IsFloat != 0
}

func isInteger(t types.Type) bool {
	b, ok := t.Underlying().(*types.Basic)
	return ok && b.Info()&types.IsInteger != 0
}

func isString(t types.Type) bool {
	b, ok := t.Underlying().(*types.Basic)
	return ok && b.Info()&types.IsString != 0
}

func isBool(t types.Type) bool {
	b, ok := t.Underlying().(*types.Basic)
	return ok && b.Info()&types.IsBoolean != 0
}

func typeWidth(t types.Type) int {
	if b, ok := t.Underlying().(*types.Basic); ok {
		return basicWidth(b)
	}
	return -1
}

// Zero returns the zero value of a type.
func Zero(t types.Type) Value {
	switch u := t.Underlying().(type) {
	case *types.Basic:
		switch {
		case u.Info()&types.IsBoolean != 0:
			return term.False()
		case u.Info()&types.IsString != 0:
			return StringV{}
		case u.Info()&types.IsFloat != 0:
			if basicWidth(u) == 32 {
				return term.FPConst32(0)
			}
			return term.FPConst64(0)
		case u.Info()&types.IsInteger != 0:
			return term.Const(basicWidth(u), 0)
		case u.Kind() == types.UnsafePointer:
			return PtrV{}
		case u.Kind() == types.UntypedNil:
			return PtrV{}
		}
	case *types.Pointer:
		return PtrV{}
	case *types.Slice:
		return SliceV{}
	case *types.Struct:
		f := make([]Value, u.NumFields())
		for i := range f {
			f[i] = Zero(u.Field(i).Type())
		}
		return &StructV{F: f}
	case *types.Array:
		e := make([]Value, u.Len())
		for i := range e {
			e[i] = Zero(u.Elem())
		}
		return &ArrayV{E: e}
	case *types.Interface:
		return IfaceV{}
	case *types.Signature:
		return FuncV{}
	case *types.Map:
		return MapV{}
	case *types.Chan:
		return PtrV{}
	case *types.Tuple:
		tv := make(TupleV, u.Len())
		for i := range tv {
			tv[i] = Zero(u.At(i).Type())
		}
		return tv
	}
	panic(fmt.Sprintf("Zero: unsupported type %v (%T)", t, t.Underlying()))
}

// ---------- heap ----------

type Obj struct {
	V     Value
	owner *int
}

type Heap struct {
	frozen map[int]*Obj // immutable layer shared by every state (the heap after package initialisation)
	objs   map[int]*Obj // objects created or modified since; possibly shared with other heaps (see shared)
	shared bool         // objs is shared with another heap: copy before the first write
	owner  *int
}

var nextObj = 1

func NewHeap() *Heap { return &Heap{objs: map[int]*Obj{}, owner: new(int)} }

// Freeze turns the current contents into the shared immutable layer.
func (h *Heap) Freeze() {
	f := make(map[int]*Obj, len(h.frozen)+len(h.objs))
	for k, v := range h.frozen {
		f[k] = v
	}
	for k, v := range h.objs {
		f[k] = v
	}
	h.frozen = f
	h.objs = map[int]*Obj{}
	h.shared = false
	h.owner = new(int)
}

// Fork is O(1): both heaps keep the same delta map until one of them writes.
func (h *Heap) Fork() *Heap {
	h.shared = true
	// the parent must not mutate shared objects in place either
	h.owner = new(int)
	return &Heap{frozen: h.frozen, objs: h.objs, shared: true, owner: new(int)}
}

func (h *Heap) own() {
	if !h.shared {
		return
	}
	n := make(map[int]*Obj, len(h.objs)+8)
	for k, v := range h.objs {
		n[k] = v
	}
	h.objs = n
	h.shared = false
}

func (h *Heap) Alloc(v Value) int {
	h.own()
	id := nextObj
	nextObj++
	h.objs[id] = &Obj{V: v, owner: h.owner}
	return id
}

func (h *Heap) lookup(id int) *Obj {
	if o, ok := h.objs[id]; ok {
		return o
	}
	return h.frozen[id]
}

func (h *Heap) Get(id int) Value {
	o := h.lookup(id)
	if o == nil {
		panic(fmt.Sprintf("heap: no object %d", id))
	}
	return o.V
}

func (h *Heap) Has(id int) bool { return h.lookup(id) != nil }

func (h *Heap) Set(id int, v Value) {
	o := h.lookup(id)
	if o == nil {
		panic(fmt.Sprintf("heap: no object %d", id))
	}
	if o.owner == h.owner {
		o.V = v
		return
	}
	h.own()
	h.objs[id] = &Obj{V: v, owner: h.owner}
}

func navigate(v Value, path []int) Value {
	for _, i := range path {
		switch x := v.(type) {
		case *StructV:
			v = x.F[i]
		case *ArrayV:
			v = x.E[i]
		default:
			panic(fmt.Sprintf("navigate: cannot index %T", v))
		}
	}
	return v
}

func update(v Value, path []int, nv Value) Value {
	if len(path) == 0 {
		return nv
	}
	i := path[0]
	switch x := v.(type) {
	case *StructV:
		f := make([]Value, len(x.F))
		copy(f, x.F)
		f[i] = update(x.F[i], path[1:], nv)
		return &StructV{F: f}
	case *ArrayV:
		e := make([]Value, len(x.E))
		copy(e, x.E)
		e[i] = update(x.E[i], path[1:], nv)
		return &ArrayV{E: e}
	}
	panic(fmt.Sprintf("update: cannot index %T", v))
}

func (h *Heap) Load(p PtrV) Value { return navigate(h.Get(p.Obj), p.Path) }
func (h *Heap) Store(p PtrV, v Value) {
	h.Set(p.Obj, update(h.Get(p.Obj), p.Path, v))
}

func (p PtrV) Sub(i int) PtrV {
	np := make([]int, len(p.Path)+1)
	copy(np, p.Path)
	np[len(p.Path)] = i
	return PtrV{Obj: p.Obj, Path: np}
}

// ---------- merging ----------

// renaming maps object ids of the "b" side to ids of the "a" side for objects allocated after a common base.
type merger struct {
	c      *term.Term // condition selecting side a
	base   int        // objects with id > base are fresh (allocated after the fork)
	rho    map[int]int
	rhoInv map[int]int
	ha, hb *Heap
	todo   [][2]int
}

func (m *merger) objPair(a, b int) bool {
	if a == b {
		return true
	}
	if a == 0 || b == 0 {
		return false
	}
	if r, ok := m.rho[b]; ok {
		return r == a
	}
	if a <= m.base || b <= m.base {
		return false
	}
	if _, ok := m.rhoInv[a]; ok {
		return false
	}
	// a must not exist in b's heap and b must not exist in a's heap (fresh on their own side)
	if m.hb.Has(a) || m.ha.Has(b) {
		return false
	}
	m.rho[b] = a
	m.rhoInv[a] = b
	m.todo = append(m.todo, [2]int{a, b})
	return true
}

func pathEq(a, b []int) bool {
	if len(a) != len(b) {
		return false
	}
	for i := range a {
		if a[i] != b[i] {
			return false
		}
	}
	return true
}

// val merges two values; ok=false on shape mismatch.
func (m *merger) val(a, b Value) (Value, bool) {
	switch x := a.(type) {
	case nil:
		if b == nil {
			return nil, true
		}
		return nil, false
	case *term.Term:
		y, ok := b.(*term.Term)
		if !ok || x.Sort != y.Sort {
			return nil, false
		}
		return term.Ite(m.c, x, y), true
	case *StructV:
		y, ok := b.(*StructV)
		if !ok || len(x.F) != len(y.F) {
			return nil, false
		}
		if x == y {
			return x, true
		}
		f := make([]Value, len(x.F))
		for i := range f {
			v, ok := m.val(x.F[i], y.F[i])
			if !ok {
				return nil, false
			}
			f[i] = v
		}
		return &StructV{F: f}, true
	case *ArrayV:
		y, ok := b.(*ArrayV)
		if !ok || len(x.E) != len(y.E) {
			return nil, false
		}
		if x == y {
			return x, true
		}
		e := make([]Value, len(x.E))
		for i := range e {
			v, ok := m.val(x.E[i], y.E[i])
			if !ok {
				return nil, false
			}
			e[i] = v
		}
		return &ArrayV{E: e}, true
	case PtrV:
		y, ok := b.(PtrV)
		if !ok || !pathEq(x.Path, y.Path) || !m.objPair(x.Obj, y.Obj) {
			return nil, false
		}
		return x, true
	case SliceV:
		y, ok := b.(SliceV)
		if !ok || x.Off != y.Off || x.Len != y.Len || x.Cap != y.Cap || !m.objPair(x.Obj, y.Obj) {
			return nil, false
		}
		return x, true
	case StringV:
		y, ok := b.(StringV)
		if !ok || len(x.B) != len(y.B) {
			return nil, false
		}
		if len(x.B) == 0 {
			return x, true
		}
		bs := make([]*term.Term, len(x.B))
		for i := range bs {
			bs[i] = term.Ite(m.c, x.B[i], y.B[i])
		}
		return StringV{B: bs}, true
	case IfaceV:
		y, ok := b.(IfaceV)
		if !ok {
			return nil, false
		}
		if x.T == nil || y.T == nil {
			if x.T == nil && y.T == nil {
				return x, true
			}
			return nil, false
		}
		if !types.Identical(x.T, y.T) {
			return nil, false
		}
		v, ok := m.val(x.V, y.V)
		if !ok {
			return nil, false
		}
		return IfaceV{T: x.T, V: v}, true
	case FuncV:
		y, ok := b.(FuncV)
		if !ok || x.Fn != y.Fn || x.Builtin != y.Builtin || x.Stub != y.Stub || len(x.Bind) != len(y.Bind) {
			return nil, false
		}
		if len(x.Bind) == 0 {
			return x, true
		}
		bind := make([]Value, len(x.Bind))
		for i := range bind {
			v, ok := m.val(x.Bind[i], y.Bind[i])
			if !ok {
				return nil, false
			}
			bind[i] = v
		}
		return FuncV{Fn: x.Fn, Bind: bind}, true
	case MapV:
		y, ok := b.(MapV)
		if !ok || !m.objPair(x.Obj, y.Obj) {
			return nil, false
		}
		return x, true
	case RangeV:
		y, ok := b.(RangeV)
		if !ok || !m.objPair(x.Obj, y.Obj) {
			return nil, false
		}
		return x, true
	case TupleV:
		y, ok := b.(TupleV)
		if !ok || len(x) != len(y) {
			return nil, false
		}
		t := make(TupleV, len(x))
		for i := range t {
			v, ok := m.val(x[i], y[i])
			if !ok {
				return nil, false
			}
			t[i] = v
		}
		return t, true
	case *OpaqueV:
		y, ok := b.(*OpaqueV)
		if !ok {
			return nil, false
		}
		if x == y {
			return x, true
		}
		if x.Kind != y.Kind {
			return nil, false
		}
		if mg, ok := x.Data.(interface {
			MergeWith(m *merger, o interface{}) (interface{}, bool)
		}); ok {
			d, ok := mg.MergeWith(m, y.Data)
			if !ok {
				return nil, false
			}
			return &OpaqueV{Kind: x.Kind, Data: d}, true
		}
		return nil, false
	case *mapData:
		y, ok := b.(*mapData)
		if !ok || x != y {
			return nil, false
		}
		return x, true
	}
	panic(fmt.Sprintf("merge: unsupported value %T", a))
}

// renameVal rewrites object ids of a b-side value according to rho (used for b-only objects kept after a merge).
func (m *merger) renameVal(v Value) Value {
	if len(m.rho) == 0 {
		return v
	}
	r := func(id int) int {
		if n, ok := m.rho[id]; ok {
			return n
		}
		return id
	}
	switch x := v.(type) {
	case *StructV:
		f := make([]Value, len(x.F))
		for i := range f {
			f[i] = m.renameVal(x.F[i])
		}
		return &StructV{F: f}
	case *ArrayV:
		e := make([]Value, len(x.E))
		for i := range e {
			e[i] = m.renameVal(x.E[i])
		}
		return &ArrayV{E: e}
	case PtrV:
		return PtrV{Obj: r(x.Obj), Path: x.Path}
	case SliceV:
		x.Obj = r(x.Obj)
		return x
	case IfaceV:
		return IfaceV{T: x.T, V: m.renameVal(x.V)}
	case FuncV:
		if len(x.Bind) == 0 {
			return x
		}
		b := make([]Value, len(x.Bind))
		for i := range b {
			b[i] = m.renameVal(x.Bind[i])
		}
		return FuncV{Fn: x.Fn, Bind: b, Builtin: x.Builtin, Stub: x.Stub}
	case MapV:
		return MapV{Obj: r(x.Obj)}
	case RangeV:
		return RangeV{Obj: r(x.Obj)}
	case TupleV:
		t := make(TupleV, len(x))
		for i := range t {
			t[i] = m.renameVal(x[i])
		}
		return t
	}
	return v
}

// mergeHeaps merges hb into a fork of ha under the merger's renaming. Called after all roots were merged
// (so rho is seeded); it iterates until the renaming closes.
func (m *merger) heaps() (*Heap, bool) {
	out := m.ha.Fork()
	if sameMap(m.ha.objs, m.hb.objs) && len(m.todo) == 0 {
		return out, true
	}
	// objects present on both sides under the same id
	ids := make([]int, 0, len(m.hb.objs))
	for id := range m.hb.objs {
		ids = append(ids, id)
	}
	sort.Ints(ids)
	for _, id := range ids {
		ob := m.hb.objs[id]
		oa := m.ha.lookup(id)
		if oa == nil {
			continue
		}
		if oa == ob || sameValue(oa.V, ob.V) {
			continue
		}
		v, ok := m.val(oa.V, ob.V)
		if !ok {
			return nil, false
		}
		out.Set(id, v)
	}
	// renamed fresh pairs
	for len(m.todo) > 0 {
		p := m.todo[0]
		m.todo = m.todo[1:]
		v, ok := m.val(m.ha.Get(p[0]), m.hb.Get(p[1]))
		if !ok {
			return nil, false
		}
		out.Set(p[0], v)
	}
	// b-only objects that were not renamed are carried over (renaming references inside them)
	for _, id := range ids {
		if m.ha.Has(id) {
			continue
		}
		if _, renamed := m.rho[id]; renamed {
			continue
		}
		out.own()
		out.objs[id] = &Obj{V: m.renameVal(m.hb.objs[id].V), owner: out.owner}
	}
	// objects modified only on the a side relative to the frozen layer, while b still has the frozen value
	if m.ha.frozen != nil {
		for id, oa := range m.ha.objs {
			if _, inB := m.hb.objs[id]; inB {
				continue
			}
			fo, ok := m.hb.frozen[id]
			if !ok || fo == oa || sameValue(fo.V, oa.V) {
				continue
			}
			v, ok := m.val(oa.V, fo.V)
			if !ok {
				return nil, false
			}
			out.Set(id, v)
		}
	}
	return out, true
}

// sameValue is pointer identity for the pointer-shaped value kinds (never compares uncomparable structs).
func sameValue(a, b Value) bool {
	switch x := a.(type) {
	case *term.Term:
		y, ok := b.(*term.Term)
		return ok && x == y
	case *StructV:
		y, ok := b.(*StructV)
		return ok && x == y
	case *ArrayV:
		y, ok := b.(*ArrayV)
		return ok && x == y
	case *OpaqueV:
		y, ok := b.(*OpaqueV)
		return ok && x == y
	case *mapData:
		y, ok := b.(*mapData)
		return ok && x == y
	}
	return false
}

func sameMap(a, b map[int]*Obj) bool {
	return reflect.ValueOf(a).Pointer() == reflect.ValueOf(b).Pointer()
}
