package ssaexec

import (
	"fmt"
	"go/types"
	"math"
	"strings"

	"symgo/term"
)

// A bounded model of fmt's formatting for the verbs the module uses. The format string is always a
// constant of the code under analysis; operands may be symbolic.

type fmtSpec struct {
	verb                     byte
	zero, minus, plus, sharp bool
	width                    int
	hasWidth                 bool
	argIndex                 int // explicit [n] (1-based) or 0
}

type fmtPiece struct {
	lit  string
	spec *fmtSpec
}

func parseFormat(format string) []fmtPiece {
	var out []fmtPiece
	i := 0
	for i < len(format) {
		j := strings.IndexByte(format[i:], '%')
		if j < 0 {
			out = append(out, fmtPiece{lit: format[i:]})
			break
		}
		if j > 0 {
			out = append(out, fmtPiece{lit: format[i : i+j]})
		}
		i += j + 1
		sp := &fmtSpec{}
	flags:
		for i < len(format) {
			switch format[i] {
			case '0':
				sp.zero = true
			case '-':
				sp.minus = true
			case '+':
				sp.plus = true
			case '#':
				sp.sharp = true
			case ' ':
			default:
				break flags
			}
			i++
		}
		if i < len(format) && format[i] == '[' {
			k := strings.IndexByte(format[i:], ']')
			fmt.Sscanf(format[i+1:i+k], "%d", &sp.argIndex)
			i += k + 1
		}
		for i < len(format) && format[i] >= '0' && format[i] <= '9' {
			sp.width = sp.width*10 + int(format[i]-'0')
			sp.hasWidth = true
			i++
		}
		if i < len(format) && format[i] == '.' {
			abort("UNSUPPORTED", "fmt precision in %q", format)
		}
		if i < len(format) && format[i] == '[' {
			k := strings.IndexByte(format[i:], ']')
			fmt.Sscanf(format[i+1:i+k], "%d", &sp.argIndex)
			i += k + 1
		}
		if i >= len(format) {
			out = append(out, fmtPiece{lit: "%!(NOVERB)"})
			break
		}
		sp.verb = format[i]
		i++
		if sp.verb == '%' {
			out = append(out, fmtPiece{lit: "%"})
			continue
		}
		out = append(out, fmtPiece{spec: sp})
	}
	return out
}

func pad(bs []*term.Term, sp *fmtSpec, numeric bool, signLen int) []*term.Term {
	if !sp.hasWidth || len(bs) >= sp.width {
		return bs
	}
	n := sp.width - len(bs)
	fill := make([]*term.Term, n)
	if sp.minus {
		for i := range fill {
			fill[i] = term.Const(8, ' ')
		}
		return append(append([]*term.Term(nil), bs...), fill...)
	}
	if sp.zero && numeric {
		for i := range fill {
			fill[i] = term.Const(8, '0')
		}
		// zero padding goes after the sign
		out := append([]*term.Term(nil), bs[:signLen]...)
		out = append(out, fill...)
		return append(out, bs[signLen:]...)
	}
	for i := range fill {
		fill[i] = term.Const(8, ' ')
	}
	return append(fill, bs...)
}

func hexDigit(n *term.Term, upper bool) *term.Term {
	// n is 4 bits
	n8 := term.Zext(n, 4)
	a := uint64('a' - 10)
	if upper {
		a = 'A' - 10
	}
	return term.Ite(term.Ult(n8, term.Const(8, 10)), term.Add(n8, term.Const(8, '0')), term.Add(n8, term.Const(8, a)))
}

// hexDigits renders an unsigned value in hex, splitting by digit count.
func (ex *Exec) hexDigits(st *State, v *term.Term, upper bool, minDigits int) []rendered {
	w := v.W()
	nd := (w + 3) / 4
	if minDigits < 1 {
		minDigits = 1
	}
	if minDigits > nd {
		minDigits = nd
	}
	var cands []struct {
		cond *term.Term
		k    int
	}
	for k := minDigits; k <= nd; k++ {
		var lo, hi *term.Term = term.True(), term.True()
		if k > minDigits {
			lo = term.Uge(v, term.Const(w, uint64(1)<<uint(4*(k-1))))
		}
		if 4*k < w {
			hi = term.Ult(v, term.Const(w, uint64(1)<<uint(4*k)))
		}
		cond := term.And(lo, hi)
		if ex.feasibleSt(st, cond, false) {
			cands = append(cands, struct {
				cond *term.Term
				k    int
			}{cond, k})
		}
	}
	var out []rendered
	ex.tracef("hexDigits w=%d min=%d cands=%d", w, minDigits, len(cands))
	for i, cd := range cands {
		var ns *State
		if i == len(cands)-1 {
			ns = st
			ns.G = term.And(st.G, cd.cond)
		} else {
			ns = st.fork(cd.cond)
			ex.Forks++
		}
		bs := make([]*term.Term, cd.k)
		for j := 0; j < cd.k; j++ {
			sh := 4 * (cd.k - 1 - j)
			hiBit := sh + 3
			var nib *term.Term
			if hiBit >= w {
				nib = term.Zext(term.Extract(v, w-1, sh), hiBit-w+1)
			} else {
				nib = term.Extract(v, hiBit, sh)
			}
			bs[j] = hexDigit(nib, upper)
		}
		out = append(out, rendered{ns, bs})
	}
	return out
}

func typeString(t types.Type) string {
	if t == nil {
		return "<nil>"
	}
	return types.TypeString(t, func(p *types.Package) string { return p.Name() })
}

// renderArg renders one operand; it may split the state.
func (ex *Exec) renderArg(c *CallCtx, st *State, sp *fmtSpec, arg Value) []rendered {
	iv, isI := arg.(IfaceV)
	var dyn types.Type
	var v Value = arg
	if isI {
		dyn, v = iv.T, iv.V
	}
	lit := func(s string) []rendered { return []rendered{{st, pad(Str(s).B, sp, false, 0)}} }
	if sp.verb == 'T' {
		return lit(typeString(dyn))
	}
	if isI && dyn == nil {
		if sp.verb == 'v' || sp.verb == 's' || sp.verb == 'w' {
			return lit("<nil>")
		}
		return lit("%!" + string(sp.verb) + "(<nil>)")
	}
	// error / Stringer / Formatter operands
	if dyn != nil && (sp.verb == 'v' || sp.verb == 's' || sp.verb == 'w' || sp.verb == 'q') {
		for _, mname := range []string{"Error", "String"} {
			ms := types.NewMethodSet(dyn)
			for i := 0; i < ms.Len(); i++ {
				sel := ms.At(i)
				sig, _ := sel.Type().(*types.Signature)
				if sel.Obj().Name() != mname || sig == nil || sig.Params().Len() != 0 || sig.Results().Len() != 1 || !isString(sig.Results().At(0).Type()) {
					continue
				}
				fn := ex.Prog.MethodValue(sel)
				if fn == nil {
					continue
				}
				var out []rendered
				for _, r := range ex.callFn(c.Fr, st, fn, nil, []Value{v}, c.Site) {
					if r.Panic != nil {
						abort("UNSUPPORTED", "%s panicked while formatting", fn)
					}
					ns := &State{G: r.G, H: r.H, F: st.F, Panics: r.Panics}
					out = append(out, rendered{ns, pad(r.Ret.(StringV).B, sp, false, 0)})
				}
				return out
			}
		}
	}
	switch x := v.(type) {
	case *term.Term:
		t := dyn
		sg := t != nil && isSigned(t)
		switch {
		case x.Sort.K == term.KBool:
			if x.IsConst() {
				return lit(fmt.Sprint(x.Val == 1))
			}
			abort("UNSUPPORTED", "formatting a symbolic bool")
		case x.Sort.K == term.KFP:
			if x.IsConst() {
				if x.Sort.W == 32 {
					return lit(fmt.Sprintf("%"+string(sp.verb), float32(termFloat(x))))
				}
				return lit(fmt.Sprintf("%"+string(sp.verb), termFloat(x)))
			}
			abort("UNSUPPORTED", "formatting a symbolic float")
		}
		switch sp.verb {
		case 'd', 'v':
			var out []rendered
			md := 1
			if sp.hasWidth && sp.zero && !sp.minus {
				md = sp.width
			}
			for _, r := range ex.decimalDigits(st, x, sg, md) {
				signLen := 0
				if len(r.out) > 0 && r.out[0].IsConst() && r.out[0].Val == '-' {
					signLen = 1
				}
				out = append(out, rendered{r.st, pad(r.out, sp, true, signLen)})
			}
			return out
		case 'x', 'X':
			md := 1
			if sp.hasWidth && sp.zero && !sp.minus {
				md = sp.width
			}
			if !sg {
				var out []rendered
				for _, r := range ex.hexDigits(st, x, sp.verb == 'X', md) {
					out = append(out, rendered{r.st, pad(r.out, sp, true, 0)})
				}
				return out
			}
			// signed operands print a minus sign and the magnitude
			neg := term.Slt(x, term.Const(x.W(), 0))
			var out []rendered
			sts := ex.splitStates(st, []*term.Term{term.Not(neg), neg}, false)
			if sts[0] != nil {
				for _, r := range ex.hexDigits(sts[0], x, sp.verb == 'X', md) {
					out = append(out, rendered{r.st, pad(r.out, sp, true, 0)})
				}
			}
			if sts[1] != nil {
				for _, r := range ex.hexDigits(sts[1], term.Neg(x), sp.verb == 'X', md-1) {
					bs := append([]*term.Term{term.Const(8, '-')}, r.out...)
					out = append(out, rendered{r.st, pad(bs, sp, true, 1)})
				}
			}
			return out
		case 'c':
			enc, ok := ex.encodeRune(st, x)
			if !ok {
				abort("UNSUPPORTED", "%%c of a symbolic non-ASCII rune")
			}
			return []rendered{{st, pad(enc, sp, false, 0)}}
		case 'U':
			var out []rendered
			for _, r := range ex.hexDigits(st, x, true, 4) {
				bs := r.out
				out = append(out, rendered{r.st, append(Str("U+").B, bs...)})
			}
			return out
		}
	case StringV:
		switch sp.verb {
		case 's', 'v':
			return []rendered{{st, pad(x.B, sp, false, 0)}}
		case 'q':
			return []rendered{{st, pad(quoteBytes(x.B), sp, false, 0)}}
		}
	case SliceV:
		bs := ex.sliceBytes(st, x)
		switch sp.verb {
		case 's':
			return []rendered{{st, pad(bs, sp, false, 0)}}
		case 'q':
			return []rendered{{st, pad(quoteBytes(bs), sp, false, 0)}}
		}
	}
	abort("UNSUPPORTED", "fmt verb %%%c on %T (dynamic type %v)", sp.verb, v, dyn)
	return nil
}

func termFloat(x *term.Term) float64 {
	if x.Sort.W == 32 {
		return float64(math.Float32frombits(uint32(x.Val)))
	}
	return math.Float64frombits(x.Val)
}

// quoteBytes is strconv.Quote for content whose bytes are concrete; symbolic bytes make the result abstract.
func quoteBytes(bs []*term.Term) []*term.Term {
	s, ok := StringV{B: bs}.Concrete()
	if !ok {
		abort("UNSUPPORTED", "%%q of symbolic text (message rendering of symbolic input is outside the model)")
	}
	return Str(fmt.Sprintf("%q", s)).B
}

// renderFormat renders the whole format; the result list has one entry per surviving state.
func (ex *Exec) renderFormat(c *CallCtx, st *State, format string, args []Value) []rendered {
	pieces := parseFormat(format)
	cur := []rendered{{st, nil}}
	ai := 0
	for _, p := range pieces {
		if p.spec == nil {
			for i := range cur {
				cur[i].out = append(cur[i].out, Str(p.lit).B...)
			}
			continue
		}
		if p.spec.argIndex > 0 {
			ai = p.spec.argIndex - 1
		}
		if ai >= len(args) {
			for i := range cur {
				cur[i].out = append(cur[i].out, Str("%!"+string(p.spec.verb)+"(MISSING)").B...)
			}
			continue
		}
		arg := args[ai]
		ai++
		var next []rendered
		for _, r := range cur {
			for _, rr := range ex.renderArg(c, r.st, p.spec, arg) {
				next = append(next, rendered{rr.st, append(append([]*term.Term(nil), r.out...), rr.out...)})
			}
		}
		cur = next
	}
	return cur
}

func init() {
	Stubs["fmt.Fprintf"] = func(ex *Exec, c *CallCtx) []*callResult {
		w := c.Args[0].(IfaceV)
		format, ok := c.Args[1].(StringV).Concrete()
		if !ok {
			abort("UNSUPPORTED", "Fprintf with symbolic format")
		}
		args := ex.variadic(c.St, c.Args[2])
		var out []*callResult
		for _, r := range ex.renderFormat(c, c.St, format, args) {
			add := make([]Value, len(r.out))
			for i, b := range r.out {
				add[i] = b
			}
			if p, ok := w.T.(*types.Pointer); ok && typeString(p.Elem()) == "bytes.Buffer" {
				ptr := w.V.(PtrV)
				b := r.st.H.Load(ptr).(*StructV)
				ns := ex.appendSlice(r.st, b.F[0].(SliceV), add)
				r.st.H.Store(ptr.Sub(0), ns)
				out = append(out, resultIn(r.st, TupleV{term.Const(64, uint64(len(add))), IfaceV{}}))
				continue
			}
			// any other io.Writer: call its Write method
			fn := ex.Prog.LookupMethod(w.T, nil, "Write")
			if fn == nil {
				abort("UNSUPPORTED", "Fprintf to %v", w.T)
			}
			buf := ex.newSlice(r.st, add, len(add))
			for _, wr := range ex.callFn(c.Fr, r.st, fn, nil, []Value{w.V, buf}, c.Site) {
				out = append(out, wr)
			}
		}
		return out
	}
	Stubs["fmt.Sprintf"] = func(ex *Exec, c *CallCtx) []*callResult {
		format, ok := c.Args[0].(StringV).Concrete()
		if !ok {
			abort("UNSUPPORTED", "Sprintf with symbolic format")
		}
		args := ex.variadic(c.St, c.Args[1])
		var out []*callResult
		for _, r := range ex.renderFormat(c, c.St, format, args) {
			out = append(out, resultIn(r.st, StringV{B: r.out}))
		}
		return out
	}
}
