package ssaexec

import (
	"fmt"

	"symgo/rx"
	"symgo/term"
)

type rxHandle struct {
	M *rx.Model
}

var rxBudget = 60000

// RxStats records the regexp models used: pattern -> "n=<len>:<paths>/<groups>".
var RxStats = map[string]map[int][2]int{}

var setTermMemo = map[string]*term.Term{}

func setTerm(b *term.Term, s rx.ByteSet) *term.Term {
	key := fmt.Sprintf("%d|%x|%x|%x|%x", b.ID, s[0], s[1], s[2], s[3])
	if t, ok := setTermMemo[key]; ok {
		return t
	}
	var ors []*term.Term
	for _, r := range s.Ranges() {
		if r[0] == r[1] {
			ors = append(ors, term.Eq(b, term.Const(8, uint64(r[0]))))
		} else {
			ors = append(ors, term.And(term.Uge(b, term.Const(8, uint64(r[0]))), term.Ule(b, term.Const(8, uint64(r[1])))))
		}
	}
	t := term.Or(ors...)
	setTermMemo[key] = t
	return t
}

func pathCond(p *rx.Path, in []*term.Term) *term.Term {
	cs := make([]*term.Term, len(p.Reqs))
	for i, r := range p.Reqs {
		cs[i] = setTerm(in[r.Pos], r.Set)
	}
	return term.And(cs...)
}

func capsKey(c []int) string { return fmt.Sprint(c) }

type rxGroup struct {
	caps []int
	cond *term.Term
}

// rxGroups returns, for input bytes in, the mutually exclusive outcomes of FindSubmatch: one per distinct capture
// tuple (in priority order) and the no-match condition.
// allowedSets derives, from the state's facts, which bytes each input position can hold at all.
func (ex *Exec) allowedSets(st *State, in []*term.Term) []rx.ByteSet {
	f := st.facts()
	var out []rx.ByteSet
	restricted := false
	for _, b := range in {
		var s rx.ByteSet
		if vals, ok := f.getVals(b.ID); ok && !b.IsConst() {
			for _, v := range vals {
				s.Add(byte(v))
			}
			restricted = true
		} else {
			r := f.rangeOf(b)
			if r.lo > r.hi {
				r.hi = r.lo
			}
			for v := r.lo; v <= r.hi && v < 256; v++ {
				s.Add(byte(v))
			}
			if r.lo > 0 || r.hi < 255 {
				restricted = true
			}
		}
		out = append(out, s)
	}
	if !restricted {
		return nil
	}
	return out
}

func (ex *Exec) rxGroups(st *State, h *rxHandle, in []*term.Term) ([]rxGroup, *term.Term) {
	paths, err := h.M.PathsAllowed(len(in), rxBudget, ex.allowedSets(st, in))
	if err != nil {
		abort("UNSUPPORTED", "%v (pattern %q, input length %d)", err, h.M.Source, len(in))
	}
	conds := make([]*term.Term, len(paths))
	for i := range paths {
		conds[i] = pathCond(&paths[i], in)
	}
	var groups []rxGroup
	idx := map[string]int{}
	keys := make([]string, len(paths))
	for i := range paths {
		keys[i] = capsKey(paths[i].Caps)
	}
	for i := range paths {
		if conds[i].IsFalse() {
			continue
		}
		// earlier paths with other captures that can overlap must not match
		sel := conds[i]
		k := keys[i]
		for j := 0; j < i; j++ {
			if conds[j].IsFalse() || keys[j] == k || rx.Disjoint(&paths[i], &paths[j]) {
				continue
			}
			sel = term.And(sel, term.Not(conds[j]))
		}
		if gi, ok := idx[k]; ok {
			groups[gi].cond = term.Or(groups[gi].cond, sel)
		} else {
			idx[k] = len(groups)
			groups = append(groups, rxGroup{caps: paths[i].Caps, cond: sel})
		}
	}
	any := term.Or(conds...)
	if RxStats[h.M.Source] == nil {
		RxStats[h.M.Source] = map[int][2]int{}
	}
	RxStats[h.M.Source][len(in)] = [2]int{len(paths), len(groups)}
	return groups, term.Not(any)
}

func (ex *Exec) rxMatch(st *State, h *rxHandle, in []*term.Term) *term.Term {
	paths, err := h.M.PathsAllowed(len(in), rxBudget, ex.allowedSets(st, in))
	if err != nil {
		abort("UNSUPPORTED", "%v (pattern %q, input length %d)", err, h.M.Source, len(in))
	}
	conds := make([]*term.Term, len(paths))
	for i := range paths {
		conds[i] = pathCond(&paths[i], in)
	}
	if RxStats[h.M.Source] == nil {
		RxStats[h.M.Source] = map[int][2]int{}
	}
	RxStats[h.M.Source][len(in)] = [2]int{len(paths), 0}
	return term.Or(conds...)
}

func rxOf(st *State, v Value) *rxHandle {
	p := v.(PtrV)
	return st.H.Load(p).(*OpaqueV).Data.(*rxHandle)
}

func init() {
	Stubs["regexp.MustCompile"] = func(ex *Exec, c *CallCtx) []*callResult {
		pat, ok := c.Args[0].(StringV).Concrete()
		if !ok {
			abort("UNSUPPORTED", "regexp.MustCompile of a symbolic pattern")
		}
		m, err := rx.Compile(pat)
		if err != nil {
			return c.panicWith(ex, "regexp: Compile: "+err.Error())
		}
		obj := c.St.H.Alloc(&OpaqueV{Kind: "regexp", Data: &rxHandle{M: m}})
		return c.ret(PtrV{Obj: obj})
	}
	Stubs["(*regexp.Regexp).FindSubmatch"] = func(ex *Exec, c *CallCtx) []*callResult {
		h := rxOf(c.St, c.Args[0])
		b := c.Args[1].(SliceV)
		in := ex.sliceBytes(c.St, b)
		groups, none := ex.rxGroups(c.St, h, in)
		var out []*callResult
		type alt struct {
			cond *term.Term
			caps []int
		}
		alts := []alt{{none, nil}}
		for _, g := range groups {
			alts = append(alts, alt{g.cond, g.caps})
		}
		for _, a := range alts {
			if !ex.feasibleSt(c.St, a.cond, false) {
				continue
			}
			ns := c.St.fork(a.cond)
			ex.Forks++
			if a.caps == nil {
				out = append(out, resultIn(ns, SliceV{}))
				continue
			}
			cells := make([]Value, len(a.caps)/2)
			for i := range cells {
				s, e := a.caps[2*i], a.caps[2*i+1]
				if s < 0 {
					cells[i] = SliceV{}
				} else {
					cells[i] = SliceV{Obj: b.Obj, Off: b.Off + s, Len: e - s, Cap: b.Cap - s}
				}
			}
			out = append(out, resultIn(ns, SliceV{Obj: ns.H.Alloc(&ArrayV{E: cells}), Len: len(cells), Cap: len(cells)}))
		}
		return out
	}
	Stubs["(*regexp.Regexp).Match"] = func(ex *Exec, c *CallCtx) []*callResult {
		h := rxOf(c.St, c.Args[0])
		return c.ret(ex.rxMatch(c.St, h, ex.sliceBytes(c.St, c.Args[1].(SliceV))))
	}
	Stubs["(*regexp.Regexp).MatchString"] = func(ex *Exec, c *CallCtx) []*callResult {
		h := rxOf(c.St, c.Args[0])
		return c.ret(ex.rxMatch(c.St, h, c.Args[1].(StringV).B))
	}
	Stubs["regexp.MatchString"] = func(ex *Exec, c *CallCtx) []*callResult {
		pat, ok := c.Args[0].(StringV).Concrete()
		if !ok {
			abort("UNSUPPORTED", "regexp.MatchString with a symbolic pattern")
		}
		m, err := rx.Compile(pat)
		if err != nil {
			return c.ret(TupleV{term.False(), ex.newError(c.St, err.Error())})
		}
		return c.ret(TupleV{ex.rxMatch(c.St, &rxHandle{M: m}, c.Args[1].(StringV).B), IfaceV{}})
	}

	// ---- misc environment ----
	Stubs["math/rand.NewSource"] = func(ex *Exec, c *CallCtx) []*callResult {
		seed, _ := c.Args[0].(*term.Term)
		return c.ret(IfaceV{T: ex.ptrType("math/rand", "rngSource"), V: &OpaqueV{Kind: "rngSource", Data: seed}})
	}
	Stubs["math/rand.New"] = func(ex *Exec, c *CallCtx) []*callResult {
		var seed *term.Term
		if iv, ok := c.Args[0].(IfaceV); ok {
			if ov, ok := iv.V.(*OpaqueV); ok {
				seed, _ = ov.Data.(*term.Term)
			}
		}
		obj := c.St.H.Alloc(&OpaqueV{Kind: "rand.Rand", Data: seed})
		// a generator created while the harness runs (package initialisers run before, their events are dropped)
		ex.Events = append(ex.Events, Event{Kind: "newgen", Obj: fmt.Sprint(obj), Site: ex.posOf(c.Site), Seed: seed})
		return c.ret(PtrV{Obj: obj})
	}
	Stubs["(*math/rand.Rand).Int63"] = func(ex *Exec, c *CallCtx) []*callResult {
		ex.Events = append(ex.Events, Event{Kind: "access", Obj: "rand.Rand", Site: ex.posOf(c.Site)})
		if p, ok := c.Args[0].(PtrV); ok && p.Obj != 0 {
			var seed *term.Term
			if ov, ok := c.St.H.Load(p).(*OpaqueV); ok {
				seed, _ = ov.Data.(*term.Term)
			}
			ex.Events = append(ex.Events, Event{Kind: "draw", Obj: fmt.Sprint(p.Obj), Site: ex.posOf(c.Site), Seed: seed, Guard: c.St.G})
		}
		var v *term.Term
		if ex.Concrete != nil {
			ex.randN++
			v = term.Const(64, ex.Concrete[fmt.Sprintf("rand%d", ex.randN)])
		} else {
			ex.randN++
			v = ex.input(fmt.Sprintf("rand%d", ex.randN), term.BV(64), "rand.Int63")
		}
		g := term.And(c.St.G, term.Eq(term.Extract(v, 63, 63), term.Const(1, 0)))
		return []*callResult{{G: g, H: c.St.H, Ret: v, Panics: c.St.Panics}}
	}
	Stubs["(*sync.Mutex).TryLock"] = func(ex *Exec, c *CallCtx) []*callResult {
		// whether another goroutine holds the mutex is the scheduler's choice: an arbitrary boolean
		ex.tryN++
		b := ex.input(fmt.Sprintf("trylock%d", ex.tryN), term.BoolSort, "sync.Mutex.TryLock")
		ex.Events = append(ex.Events, Event{Kind: "trylock", Obj: fmt.Sprint(c.Args[0].(PtrV).Obj), Site: ex.posOf(c.Site)})
		return c.ret(b)
	}
	Stubs["(*sync.Mutex).Lock"] = func(ex *Exec, c *CallCtx) []*callResult {
		ex.Events = append(ex.Events, Event{Kind: "lock", Obj: fmt.Sprint(c.Args[0].(PtrV).Obj), Site: ex.posOf(c.Site)})
		return c.ret(nil)
	}
	Stubs["(*sync.Mutex).Unlock"] = func(ex *Exec, c *CallCtx) []*callResult {
		ex.Events = append(ex.Events, Event{Kind: "unlock", Obj: fmt.Sprint(c.Args[0].(PtrV).Obj), Site: ex.posOf(c.Site)})
		return c.ret(nil)
	}
}
