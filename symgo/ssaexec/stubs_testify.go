package ssaexec

import (
	"go/types"

	"symgo/term"
)

// Contract stubs for the testify assertions used by go.lstv.dev/util/test: each returns its documented
// boolean and, exactly when that is false, reports through t.Errorf (FailNowf additionally calls t.FailNow).
// Equality is testify's ObjectsAreEqual: bytes.Equal for []byte, otherwise deep equality of dynamic type and value.

const assertPkg = "github.com/stretchr/testify/assert."

func (ex *Exec) callMethod(c *CallCtx, st *State, recv IfaceV, name string, args []Value) []*callResult {
	if recv.T == nil {
		return []*callResult{{G: st.G, H: st.H, Panic: runtimePanic(ex.posOf(c.Site), "nil TestingT"), Panics: st.Panics}}
	}
	fn := ex.Prog.LookupMethod(recv.T, nil, name)
	if fn == nil {
		ms := types.NewMethodSet(recv.T)
		for i := 0; i < ms.Len(); i++ {
			if ms.At(i).Obj().Name() == name {
				fn = ex.Prog.MethodValue(ms.At(i))
			}
		}
	}
	if fn == nil {
		abort("UNSUPPORTED", "no method %s on %v", name, recv.T)
	}
	return ex.callFn(c.Fr, st, fn, nil, append([]Value{recv.V}, args...), c.Site)
}

// deepEq: reflect.DeepEqual on executor values of the same static shape.
func (ex *Exec) deepEq(st *State, a, b Value) *term.Term {
	switch x := a.(type) {
	case IfaceV:
		y, ok := b.(IfaceV)
		if !ok {
			return term.False()
		}
		if x.T == nil || y.T == nil {
			return term.Bool(x.T == nil && y.T == nil)
		}
		if !types.Identical(x.T, y.T) {
			return term.False()
		}
		return ex.deepEq(st, x.V, y.V)
	case PtrV:
		y, ok := b.(PtrV)
		if !ok {
			return term.False()
		}
		if x.Obj == 0 || y.Obj == 0 {
			return term.Bool(x.Obj == y.Obj)
		}
		if x.Obj == y.Obj && pathEq(x.Path, y.Path) {
			return term.True()
		}
		return ex.deepEq(st, st.H.Load(x), st.H.Load(y))
	case SliceV:
		y, ok := b.(SliceV)
		if !ok {
			return term.False()
		}
		if (x.Obj == 0) != (y.Obj == 0) || x.Len != y.Len {
			return term.False()
		}
		cs := []*term.Term{}
		ea, eb := ex.sliceElems(st, x), ex.sliceElems(st, y)
		for i := range ea {
			cs = append(cs, ex.deepEq(st, ea[i], eb[i]))
		}
		return term.And(cs...)
	case *StructV:
		y, ok := b.(*StructV)
		if !ok || len(x.F) != len(y.F) {
			return term.False()
		}
		cs := make([]*term.Term, len(x.F))
		for i := range cs {
			cs[i] = ex.deepEq(st, x.F[i], y.F[i])
		}
		return term.And(cs...)
	case FuncV:
		y, ok := b.(FuncV)
		return term.Bool(ok && x.Fn == nil && y.Fn == nil && x.Builtin == "" && y.Builtin == "")
	}
	return ex.eqVal(a, b)
}

// isEmptyObj: testify's isEmpty.
func (ex *Exec) isEmptyObj(st *State, v IfaceV) *term.Term {
	if v.T == nil {
		return term.True()
	}
	switch x := v.V.(type) {
	case StringV:
		return term.Bool(len(x.B) == 0)
	case SliceV:
		return term.Bool(x.Len == 0)
	case MapV:
		return term.Bool(x.Obj == 0 || len(st.H.Get(x.Obj).(*mapData).Keys) == 0)
	case PtrV:
		if x.Obj == 0 {
			return term.True()
		}
		elem := v.T.Underlying().(*types.Pointer).Elem()
		return ex.isEmptyObj(st, IfaceV{T: elem, V: st.H.Load(x)})
	}
	return ex.deepEq(st, v.V, Zero(v.T))
}

func (ex *Exec) isNilObj(v IfaceV) *term.Term {
	if v.T == nil {
		return term.True()
	}
	switch x := v.V.(type) {
	case PtrV:
		return term.Bool(x.Obj == 0)
	case SliceV:
		return term.Bool(x.Obj == 0)
	case MapV:
		return term.Bool(x.Obj == 0)
	case FuncV:
		return term.Bool(x.Fn == nil && x.Builtin == "")
	case IfaceV:
		return term.Bool(x.T == nil)
	}
	return term.False()
}

// assertResult splits on ok: the passing side returns true, the failing side calls t.Errorf (and FailNow) first.
func (ex *Exec) assertResult(c *CallCtx, ok *term.Term, failNow bool) []*callResult {
	t := c.Args[0].(IfaceV)
	sts := ex.splitStates(c.St, []*term.Term{ok, term.Not(ok)}, false)
	var out []*callResult
	if sts[0] != nil {
		out = append(out, resultIn(sts[0], term.True()))
	}
	if sts[1] != nil {
		st := sts[1]
		for _, r := range ex.callMethod(c, st, t, "Errorf", []Value{Str("assertion failed"), SliceV{}}) {
			if r.Panic != nil {
				out = append(out, r)
				continue
			}
			ns := &State{G: r.G, H: r.H, F: st.F, Panics: r.Panics}
			if failNow {
				for _, r2 := range ex.callMethod(c, ns, t, "FailNow", nil) {
					if r2.Panic == nil {
						r2.Ret = term.False()
					}
					out = append(out, r2)
				}
				continue
			}
			out = append(out, resultIn(ns, term.False()))
		}
	}
	return out
}

// errorText calls err.Error() (single state expected).
func (ex *Exec) errorText(c *CallCtx, st *State, err IfaceV) (StringV, *State) {
	res := ex.callMethod(c, st, err, "Error", nil)
	if len(res) != 1 || res[0].Panic != nil {
		abort("UNSUPPORTED", "Error() of %v did not return in a single state", err.T)
	}
	ns := &State{G: res[0].G, H: res[0].H, F: st.F, Panics: res[0].Panics}
	s, ok := res[0].Ret.(StringV)
	if !ok {
		// a message kept unrendered by the fmt.Errorf stub: render it now when that gives one text
		if o, isO := res[0].Ret.(*OpaqueV); isO && o.Kind == "fmtmsg" {
			m := o.Data.(*fmtMsg)
			if rs := ex.renderFormat(c, ns, m.Format, m.Args); len(rs) == 1 {
				return StringV{B: rs[0].out}, rs[0].st
			}
		}
		abort("UNSUPPORTED", "Error() of %v returned an unrendered message", err.T)
	}
	return s, ns
}

func init() {
	// (*errors.errorString).Error: the stored text; a message the fmt.Errorf stub kept unrendered is rendered on
	// demand (one text or UNSUPPORTED), so code that inspects err.Error() sees what fmt would have produced
	Stubs["(*errors.errorString).Error"] = func(ex *Exec, c *CallCtx) []*callResult {
		ptr, ok := c.Args[0].(PtrV)
		if !ok || ptr.Obj == 0 {
			abort("UNSUPPORTED", "Error() on a nil *errors.errorString")
		}
		f := c.St.H.Load(ptr).(*StructV).F[0]
		if o, isO := f.(*OpaqueV); isO && o.Kind == "fmtmsg" {
			m := o.Data.(*fmtMsg)
			rs := ex.renderFormat(c, c.St, m.Format, m.Args)
			if len(rs) != 1 {
				return c.ret(f)
			}
			return []*callResult{resultIn(rs[0].st, StringV{B: rs[0].out})}
		}
		return c.ret(f)
	}
	Stubs[assertPkg+"NoError"] = func(ex *Exec, c *CallCtx) []*callResult {
		err, _ := c.Args[1].(IfaceV)
		return ex.assertResult(c, term.Bool(err.T == nil), false)
	}
	Stubs[assertPkg+"Error"] = func(ex *Exec, c *CallCtx) []*callResult {
		err, _ := c.Args[1].(IfaceV)
		return ex.assertResult(c, term.Bool(err.T != nil), false)
	}
	Stubs[assertPkg+"True"] = func(ex *Exec, c *CallCtx) []*callResult {
		return ex.assertResult(c, c.Args[1].(*term.Term), false)
	}
	Stubs[assertPkg+"Nil"] = func(ex *Exec, c *CallCtx) []*callResult {
		return ex.assertResult(c, ex.isNilObj(c.Args[1].(IfaceV)), false)
	}
	Stubs[assertPkg+"Empty"] = func(ex *Exec, c *CallCtx) []*callResult {
		return ex.assertResult(c, ex.isEmptyObj(c.St, c.Args[1].(IfaceV)), false)
	}
	Stubs[assertPkg+"Equal"] = func(ex *Exec, c *CallCtx) []*callResult {
		a, b := c.Args[1].(IfaceV), c.Args[2].(IfaceV)
		// ObjectsAreEqual (testify 1.7.1): when expected is exactly []byte, actual must be []byte too, a nil slice
		// equals only a nil slice, otherwise bytes.Equal
		if sa, ok := a.V.(SliceV); ok && a.T != nil && b.T != nil && types.Identical(a.T, b.T) {
			if sl, isSl := a.T.(*types.Slice); isSl {
				if eb, isB := sl.Elem().(*types.Basic); isB && (eb.Kind() == types.Uint8 || eb.Kind() == types.Byte) {
					sb := b.V.(SliceV)
					if sa.Obj == 0 || sb.Obj == 0 {
						return ex.assertResult(c, term.Bool(sa.Obj == 0 && sb.Obj == 0), false)
					}
					return ex.assertResult(c, ex.eqVal(StringV{B: ex.sliceBytes(c.St, sa)}, StringV{B: ex.sliceBytes(c.St, sb)}), false)
				}
			}
		}
		return ex.assertResult(c, ex.deepEq(c.St, a, b), false)
	}
	Stubs[assertPkg+"EqualError"] = func(ex *Exec, c *CallCtx) []*callResult {
		err, _ := c.Args[1].(IfaceV)
		if err.T == nil {
			return ex.assertResult(c, term.False(), false)
		}
		txt, st := ex.errorText(c, c.St, err)
		sub := &CallCtx{St: st, Fr: c.Fr, Args: c.Args, Site: c.Site, Fn: c.Fn, Name: c.Name}
		return ex.assertResult(sub, ex.eqVal(txt, c.Args[2].(StringV)), false)
	}
	Stubs[assertPkg+"FailNowf"] = func(ex *Exec, c *CallCtx) []*callResult {
		return ex.assertResult(c, term.False(), true)
	}
	Stubs["runtime/debug.Stack"] = func(ex *Exec, c *CallCtx) []*callResult {
		return c.ret(ex.byteSlice(c.St, Str("goroutine 1 [running]:\n(stack elided by the model)\n").B))
	}
}
