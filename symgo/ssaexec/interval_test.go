package ssaexec

import (
	"fmt"
	"math/rand"
	"os"
	"strconv"
	"testing"

	"symgo/term"
)

// The interval layer is part of the trusted base: a range that is too narrow would let the executor prune a
// feasible branch or simplify a term unsoundly. This test builds random 8-bit terms over two variables with random
// path facts, enumerates every assignment that satisfies the facts, and checks that the unsigned range, the signed
// range and every decided comparison cover the evaluated value.

func deep(t *term.Term) string {
	if t.IsConst() || t.Op == term.OVar {
		return t.String()
	}
	s := fmt.Sprintf("(op%d", t.Op)
	if t.A != 0 || t.B != 0 {
		s += fmt.Sprintf("[%d,%d]", t.A, t.B)
	}
	for _, a := range t.Args {
		s += " " + deep(a)
	}
	return s + ")"
}

func sval8(v uint64, w int) int64 {
	v &= (1 << uint(w)) - 1
	if v>>(uint(w)-1) != 0 {
		return int64(v) - (1 << uint(w))
	}
	return int64(v)
}

func randTerm(r *rand.Rand, x, y *term.Term, depth int) *term.Term {
	w := x.W()
	k := func() *term.Term { return term.Const(w, uint64(r.Intn(1<<uint(w)))) }
	pk := func() *term.Term { return term.Const(w, uint64(1+r.Intn(20))) }
	if depth == 0 {
		switch r.Intn(4) {
		case 0:
			return x
		case 1:
			return y
		default:
			return k()
		}
	}
	a := randTerm(r, x, y, depth-1)
	b := randTerm(r, x, y, depth-1)
	switch r.Intn(14) {
	case 0:
		return term.Add(a, b)
	case 1:
		return term.Sub(a, b)
	case 2:
		return term.Mul(a, pk())
	case 3:
		return term.Neg(a)
	case 4:
		return term.SDiv(a, pk())
	case 5:
		return term.SRem(a, pk())
	case 6:
		return term.UDiv(a, pk())
	case 7:
		return term.URem(a, pk())
	case 8:
		return term.Ite(term.Slt(a, k()), b, randTerm(r, x, y, depth-1))
	case 9:
		return term.Ite(term.Ult(a, k()), b, randTerm(r, x, y, depth-1))
	case 10:
		return term.Extract(term.Add(term.Sext(a, 8), term.Sext(b, 8)), w-1, 0)
	case 11:
		return term.Extract(term.Mul(term.Zext(a, 8), term.Zext(pk(), 8)), w-1, 0)
	case 12:
		return term.Mul(a, b)
	default:
		return term.Add(a, k())
	}
}

func TestIntervalsCoverEveryValue(t *testing.T) {
	seed := int64(20260927)
	if v, err := strconv.ParseInt(os.Getenv("SYMGO_TEST_SEED"), 10, 64); err == nil {
		seed = v
	}
	r := rand.New(rand.NewSource(seed))
	const w = 8
	x, y := term.Var("ix", term.BV(w)), term.Var("iy", term.BV(w))
	checked := 0
	for iter := 0; iter < 8000; iter++ {
		// random facts: signed and/or unsigned bounds, sometimes a disjunction (merged guard shape)
		var conj []*term.Term
		for _, v := range []*term.Term{x, y} {
			switch r.Intn(4) {
			case 0:
				lo := int64(r.Intn(256) - 128)
				hi := lo + int64(r.Intn(60))
				if hi > 127 {
					hi = 127
				}
				conj = append(conj, term.Sle(term.Const(w, uint64(lo)), v), term.Sle(v, term.Const(w, uint64(hi))))
			case 1:
				lo := uint64(r.Intn(256))
				hi := lo + uint64(r.Intn(60))
				if hi > 255 {
					hi = 255
				}
				conj = append(conj, term.Ule(term.Const(w, lo), v), term.Ule(v, term.Const(w, hi)))
			case 2:
				c := term.Slt(v, term.Const(w, uint64(r.Intn(256))))
				lo := int64(r.Intn(100) - 50)
				conj = append(conj, term.Or(c, term.And(term.Not(c), term.Sle(term.Const(w, uint64(lo)), v), term.Sle(v, term.Const(w, uint64(lo+20))))))
			}
		}
		g := term.And(conj...)
		if g.IsFalse() {
			continue
		}
		f := factsOf(g)
		e := randTerm(r, x, y, 1+r.Intn(3))
		if e.Sort.K != term.KBV {
			continue
		}
		ur := f.rangeOf(e)
		sr, sok := f.srangeOf(e)
		cmpK := term.Const(e.W(), uint64(r.Intn(256)))
		cmps := []*term.Term{term.Slt(e, cmpK), term.Sle(e, cmpK), term.Ult(e, cmpK), term.Ule(e, cmpK), term.Eq(e, cmpK)}
		dec := make([]int8, len(cmps))
		for i, c := range cmps {
			dec[i] = f.decide(c)
		}
		any := false
		ysample := -1
		for b := 0; b < 256 && ysample < 0; b++ {
			for a := 0; a < 256; a++ {
				if term.EvalBool(g, term.Model{"ix": uint64(a), "iy": uint64(b)}) {
					ysample = b
					break
				}
			}
		}
		if ysample < 0 {
			continue
		}
		var xs, ys []int
		for a := 0; a < 256; a++ {
			if term.EvalBool(g, term.Model{"ix": uint64(a), "iy": uint64(ysample)}) {
				xs = append(xs, a)
			}
		}
		for b := 0; b < 256; b++ {
			if len(xs) > 0 && term.EvalBool(g, term.Model{"ix": uint64(xs[0]), "iy": uint64(b)}) {
				ys = append(ys, b)
			}
		}
		for _, a := range xs {
			for _, b := range ys {
				m := term.Model{"ix": uint64(a), "iy": uint64(b)}
				if !term.EvalBool(g, m) {
					continue
				}
				any = true
				v := term.Eval(e, m)
				if v < ur.lo || v > ur.hi {
					t.Fatalf("unsigned range [%d,%d] misses %d for %s under %s (x=%d y=%d)", ur.lo, ur.hi, v, deep(e), deep(g), a, b)
				}
				if sok {
					if s := sval8(v, e.W()); s < sr.lo || s > sr.hi {
						t.Fatalf("signed range [%d,%d] misses %d for %s under %s (x=%d y=%d)", sr.lo, sr.hi, s, deep(e), deep(g), a, b)
					}
				}
				for i, c := range cmps {
					if dec[i] >= 0 && (dec[i] == 1) != term.EvalBool(c, m) {
						t.Fatalf("decide(%s)=%d but it evaluates to %v under %s (x=%d y=%d)", deep(c), dec[i], term.EvalBool(c, m), deep(g), a, b)
					}
				}
			}
		}
		if any {
			checked++
			if !f.consistent() {
				t.Fatalf("facts of a satisfiable guard reported inconsistent: %v", g)
			}
		}
	}
	if checked < 4000 {
		t.Fatalf("only %d satisfiable cases", checked)
	}
}

// liftTrunc: truncating the lifted term gives back the original.
func TestLiftTruncCommutes(t *testing.T) {
	r := rand.New(rand.NewSource(7))
	X, Y := term.Var("lx", term.BV(16)), term.Var("ly", term.BV(16))
	for iter := 0; iter < 8000; iter++ {
		x8, y8 := term.Extract(X, 7, 0), term.Extract(Y, 7, 0)
		var e *term.Term
		switch r.Intn(5) {
		case 0:
			e = term.Add(x8, term.Const(8, uint64(r.Intn(256))))
		case 1:
			e = term.Ite(term.Slt(X, term.Const(16, uint64(r.Intn(65536)))), term.Const(8, uint64(r.Intn(256))), term.Sub(x8, y8))
		case 2:
			e = term.Mul(term.Add(x8, y8), term.Const(8, uint64(r.Intn(256))))
		case 3:
			e = term.Add(term.Ite(term.Ult(Y, X), term.Const(8, 0), term.Add(x8, term.Const(8, 255))), term.Const(8, 1))
		default:
			e = term.Sub(y8, term.Mul(x8, y8))
		}
		l := liftTrunc(e, 16, 0)
		if l == nil {
			continue
		}
		for k := 0; k < 200; k++ {
			m := term.Model{"lx": uint64(r.Intn(65536)), "ly": uint64(r.Intn(65536))}
			if term.Eval(e, m) != term.Eval(l, m)&0xff {
				t.Fatalf("liftTrunc(%v) = %v differs modulo 2^8 at %v", e, l, m)
			}
		}
	}
}

// srangeLin: bounds stated for one linear form of a base bound every other linear form of it.
func TestLinearRangesCoverEveryValue(t *testing.T) {
	r := rand.New(rand.NewSource(11))
	X := term.Var("LX", term.BV(64))
	k64 := func(v int64) *term.Term { return term.Const(64, uint64(v)) }
	mkLin := func(sign int, off int64, shape int) *term.Term {
		if sign > 0 {
			switch shape % 3 {
			case 0:
				return term.Add(X, k64(off))
			case 1:
				return term.Sub(X, k64(-off))
			default:
				return term.Add(term.Add(X, k64(off-7)), k64(7))
			}
		}
		switch shape % 3 {
		case 0:
			return term.Sub(k64(off), X)
		case 1:
			return term.Add(term.Neg(X), k64(off))
		default:
			return term.Sub(k64(off+3), term.Add(X, k64(3)))
		}
	}
	for iter := 0; iter < 4000; iter++ {
		s1, s2 := 1-2*r.Intn(2), 1-2*r.Intn(2)
		o1, o2 := int64(r.Intn(2000000)-1000000), int64(r.Intn(2000000)-1000000)
		u := mkLin(s1, o1, r.Intn(3))
		lo := int64(r.Intn(400000) - 200000)
		hi := lo + int64(r.Intn(300000))
		var conj []*term.Term
		switch r.Intn(3) {
		case 0:
			conj = []*term.Term{term.Sle(k64(lo), u), term.Sle(u, k64(hi))}
		case 1:
			conj = []*term.Term{term.Sle(u, k64(hi))}
			lo = hi - 300000
		default:
			conj = []*term.Term{term.Sle(k64(lo), u)}
			hi = lo + 300000
		}
		g := term.And(conj...)
		f := factsOf(g)
		e := mkLin(s2, o2, r.Intn(3))
		mul := int64(1)
		if r.Intn(2) == 0 {
			mul = int64(1 + r.Intn(100000))
			e = term.Mul(e, k64(mul))
		}
		sr, ok := f.srangeLin(e)
		if !ok {
			continue
		}
		for n := 0; n < 50; n++ {
			uv := lo + int64(r.Int63n(hi-lo+1)) // value of the bounded form
			xv := int64(s1) * (uv - o1)         // s1*x + o1 = uv
			m := term.Model{"LX": uint64(xv)}
			if !term.EvalBool(g, m) {
				t.Fatalf("sample does not satisfy the guard")
			}
			if v := int64(term.Eval(e, m)); v < sr.lo || v > sr.hi {
				t.Fatalf("linear range [%d,%d] misses %d for %s under %s (x=%d)", sr.lo, sr.hi, v, deep(e), deep(g), xv)
			}
		}
	}
}
