// Package term is a hash-consed term DAG over Bool, fixed-width bit-vectors and IEEE floats,
// with local simplification, concrete evaluation and an SMT-LIB2 printer.
package term

import (
	"encoding/binary"
	"fmt"
	"math"
	"math/bits"
	"sort"
)

type Kind uint8

const (
	KBool Kind = iota
	KBV
	KFP
)

type Sort struct {
	K Kind
	W int // BV width; FP: total width (32/64)
}

var BoolSort = Sort{K: KBool}

func BV(w int) Sort { return Sort{K: KBV, W: w} }
func FP(w int) Sort { return Sort{K: KFP, W: w} }

func (s Sort) SMT() string {
	switch s.K {
	case KBool:
		return "Bool"
	case KBV:
		return fmt.Sprintf("(_ BitVec %d)", s.W)
	default:
		if s.W == 32 {
			return "(_ FloatingPoint 8 24)"
		}
		return "(_ FloatingPoint 11 53)"
	}
}

type Op uint8

const (
	OConst Op = iota
	OVar
	ONot
	OAnd
	OOr
	OIte
	OEq
	OAdd
	OSub
	OMul
	OUDiv
	OURem
	OSDiv
	OSRem
	OBAnd
	OBOr
	OBXor
	OBNot
	ONeg
	OShl
	OLShr
	OAShr
	OUlt
	OUle
	OSlt
	OSle
	OExtract // A=hi B=lo
	OConcat
	OZext // A=extra bits
	OSext
	// floating point
	OFpEq
	OFpLt
	OFpLe
	OFpIsNaN
	OFpIsInf
	OFpNeg
	OFpAdd
	OFpSub
	OFpMul
	OFpDiv
	OFpToFp    // fp -> fp of sort W (RNE)
	OFpFromSBV // bv -> fp (RNE)
	OFpFromUBV
	OFpToUBV // fp -> bv A bits (RTZ), unspecified when out of range
	OFpToSBV
	OFpOfBits // reinterpret bv as fp
	OFpRTI    // round to integral, A = mode (0 RTZ, 1 RTN (floor), 2 RTP (ceil), 3 RNE)
)

var opNames = map[Op]string{
	ONot: "not", OAnd: "and", OOr: "or", OIte: "ite", OEq: "=",
	OAdd: "bvadd", OSub: "bvsub", OMul: "bvmul", OUDiv: "bvudiv", OURem: "bvurem", OSDiv: "bvsdiv", OSRem: "bvsrem",
	OBAnd: "bvand", OBOr: "bvor", OBXor: "bvxor", OBNot: "bvnot", ONeg: "bvneg", OShl: "bvshl", OLShr: "bvlshr", OAShr: "bvashr",
	OUlt: "bvult", OUle: "bvule", OSlt: "bvslt", OSle: "bvsle", OConcat: "concat",
	OFpEq: "fp.eq", OFpLt: "fp.lt", OFpLe: "fp.leq", OFpIsNaN: "fp.isNaN", OFpIsInf: "fp.isInfinite", OFpNeg: "fp.neg",
}

type Term struct {
	ID   int
	Op   Op
	Sort Sort
	Args []*Term
	A, B int
	Val  uint64
	Name string
}

var (
	table  = map[string]*Term{}
	nextID = 1
	// NumNodes counts created nodes
)

func NumNodes() int { return nextID - 1 }

var keyBuf []byte

func mk(op Op, s Sort, a, b int, val uint64, name string, args ...*Term) *Term {
	kb := keyBuf[:0]
	kb = append(kb, byte(op), byte(s.K))
	kb = binary.AppendUvarint(kb, uint64(s.W))
	kb = binary.AppendUvarint(kb, uint64(a))
	kb = binary.AppendUvarint(kb, uint64(b))
	kb = binary.AppendUvarint(kb, val)
	kb = binary.AppendUvarint(kb, uint64(len(name)))
	kb = append(kb, name...)
	for _, x := range args {
		kb = binary.AppendUvarint(kb, uint64(x.ID))
	}
	keyBuf = kb
	if t, ok := table[string(kb)]; ok {
		return t
	}
	t := &Term{ID: nextID, Op: op, Sort: s, Args: args, A: a, B: b, Val: val, Name: name}
	nextID++
	table[string(kb)] = t
	return t
}

func mask(w int) uint64 {
	if w >= 64 {
		return ^uint64(0)
	}
	return (uint64(1) << uint(w)) - 1
}

func (t *Term) IsConst() bool { return t.Op == OConst }
func (t *Term) IsTrue() bool  { return t.Op == OConst && t.Sort.K == KBool && t.Val == 1 }
func (t *Term) IsFalse() bool { return t.Op == OConst && t.Sort.K == KBool && t.Val == 0 }
func (t *Term) W() int        { return t.Sort.W }

// SVal returns the constant interpreted as signed.
func (t *Term) SVal() int64 {
	w := t.Sort.W
	if w >= 64 {
		return int64(t.Val)
	}
	if t.Val>>(uint(w)-1)&1 == 1 {
		return int64(t.Val | ^mask(w))
	}
	return int64(t.Val)
}

var tTrue, tFalse *Term

func True() *Term {
	if tTrue == nil {
		tTrue = mk(OConst, BoolSort, 0, 0, 1, "")
	}
	return tTrue
}
func False() *Term {
	if tFalse == nil {
		tFalse = mk(OConst, BoolSort, 0, 0, 0, "")
	}
	return tFalse
}
func Bool(b bool) *Term {
	if b {
		return True()
	}
	return False()
}

func Const(w int, v uint64) *Term {
	if w > 64 {
		// wide constants only by extension of a 64-bit one
		return Zext(Const(64, v), w-64)
	}
	return mk(OConst, BV(w), 0, 0, v&mask(w), "")
}

func FPConst32(f float32) *Term { return mk(OConst, FP(32), 0, 0, uint64(math.Float32bits(f)), "") }
func FPConst64(f float64) *Term { return mk(OConst, FP(64), 0, 0, math.Float64bits(f), "") }

func Var(name string, s Sort) *Term { return mk(OVar, s, 0, 0, 0, name) }

func Not(a *Term) *Term {
	if a.IsConst() {
		return Bool(a.Val == 0)
	}
	if a.Op == ONot {
		return a.Args[0]
	}
	return mk(ONot, BoolSort, 0, 0, 0, "", a)
}

func flatten(op Op, in []*Term, out []*Term) []*Term {
	for _, x := range in {
		if x.Op == op {
			out = flatten(op, x.Args, out)
		} else {
			out = append(out, x)
		}
	}
	return out
}

func And(xs ...*Term) *Term {
	if len(xs) == 2 {
		a, b := xs[0], xs[1]
		if b.Op == OAnd && a.Op != OAnd {
			a, b = b, a
		}
		if a.Op == OAnd && b.Op != OAnd && !b.IsConst() {
			// insert b into the sorted, duplicate-free argument list of a
			args := a.Args
			i := sort.Search(len(args), func(i int) bool { return args[i].ID >= b.ID })
			if i < len(args) && args[i] == b {
				return a
			}
			var neg *Term
			if b.Op == ONot {
				neg = b.Args[0]
			}
			for _, x := range args {
				if x == neg || (x.Op == ONot && x.Args[0] == b) {
					return False()
				}
			}
			out := make([]*Term, 0, len(args)+1)
			out = append(out, args[:i]...)
			out = append(out, b)
			out = append(out, args[i:]...)
			return mk(OAnd, BoolSort, 0, 0, 0, "", out...)
		}
	}
	fl := flatten(OAnd, xs, nil)
	seen := map[int]bool{}
	var out []*Term
	for _, x := range fl {
		if x.IsFalse() {
			return False()
		}
		if x.IsTrue() || seen[x.ID] {
			continue
		}
		seen[x.ID] = true
		out = append(out, x)
	}
	for _, x := range out {
		if x.Op == ONot && seen[x.Args[0].ID] {
			return False()
		}
	}
	if len(out) == 0 {
		return True()
	}
	if len(out) == 1 {
		return out[0]
	}
	sort.Slice(out, func(i, j int) bool { return out[i].ID < out[j].ID })
	return mk(OAnd, BoolSort, 0, 0, 0, "", out...)
}

func Or(xs ...*Term) *Term {
	fl := flatten(OOr, xs, nil)
	seen := map[int]bool{}
	var out []*Term
	for _, x := range fl {
		if x.IsTrue() {
			return True()
		}
		if x.IsFalse() || seen[x.ID] {
			continue
		}
		seen[x.ID] = true
		out = append(out, x)
	}
	for _, x := range out {
		if x.Op == ONot && seen[x.Args[0].ID] {
			return True()
		}
	}
	if len(out) == 0 {
		return False()
	}
	if len(out) == 1 {
		return out[0]
	}
	sort.Slice(out, func(i, j int) bool { return out[i].ID < out[j].ID })
	return mk(OOr, BoolSort, 0, 0, 0, "", out...)
}

func Implies(a, b *Term) *Term { return Or(Not(a), b) }

func Ite(c, a, b *Term) *Term {
	if a.Sort != b.Sort {
		panic(fmt.Sprintf("ite sort mismatch %v %v", a.Sort, b.Sort))
	}
	if c.IsTrue() {
		return a
	}
	if c.IsFalse() {
		return b
	}
	if a == b {
		return a
	}
	if c.Op == ONot {
		return Ite(c.Args[0], b, a)
	}
	if a.Sort.K == KBool {
		switch {
		case a.IsTrue() && b.IsFalse():
			return c
		case a.IsFalse() && b.IsTrue():
			return Not(c)
		case a.IsTrue():
			return Or(c, b)
		case a.IsFalse():
			return And(Not(c), b)
		case b.IsTrue():
			return Or(Not(c), a)
		case b.IsFalse():
			return And(c, a)
		}
	}
	// ite(c, x, ite(c, y, z)) = ite(c, x, z)
	if b.Op == OIte && b.Args[0] == c {
		return Ite(c, a, b.Args[2])
	}
	if a.Op == OIte && a.Args[0] == c {
		return Ite(c, a.Args[1], b)
	}
	return mk(OIte, a.Sort, 0, 0, 0, "", c, a, b)
}

func Eq(a, b *Term) *Term {
	if a.Sort != b.Sort {
		panic(fmt.Sprintf("eq sort mismatch %v %v", a.Sort, b.Sort))
	}
	if a == b {
		if a.Sort.K == KFP {
			// structural equality of identical FP terms (SMT "=") is true
			return True()
		}
		return True()
	}
	if a.IsConst() && b.IsConst() {
		return Bool(a.Val == b.Val)
	}
	if a.IsConst() {
		a, b = b, a
	}
	if a.Sort.K == KBool {
		if b.IsTrue() {
			return a
		}
		if b.IsFalse() {
			return Not(a)
		}
	}
	if b.IsConst() && a.Sort.K == KBV {
		switch a.Op {
		case OIte:
			x, y := a.Args[1], a.Args[2]
			if x.IsConst() || y.IsConst() {
				return Ite(a.Args[0], Eq(x, b), Eq(y, b))
			}
		case OZext:
			in := a.Args[0]
			if in.W() <= 64 {
				if b.W() <= 64 && b.Val > mask(in.W()) {
					return False()
				}
				if b.W() <= 64 {
					return Eq(in, Const(in.W(), b.Val))
				}
			}
		case OBXor:
			// (x ^ c) == k  ->  x == c^k
			if a.Args[1].IsConst() && a.W() <= 64 {
				return Eq(a.Args[0], Const(a.W(), a.Args[1].Val^b.Val))
			}
		case OAdd:
			if a.Args[1].IsConst() && a.W() <= 64 {
				return Eq(a.Args[0], Const(a.W(), b.Val-a.Args[1].Val))
			}
		}
	}
	if a.ID > b.ID {
		a, b = b, a
	}
	return mk(OEq, BoolSort, 0, 0, 0, "", a, b)
}

func Ne(a, b *Term) *Term { return Not(Eq(a, b)) }

func signed(w int, v uint64) int64 {
	if w >= 64 {
		return int64(v)
	}
	if v>>(uint(w)-1)&1 == 1 {
		return int64(v | ^mask(w))
	}
	return int64(v)
}

func foldBin(op Op, w int, x, y uint64) (uint64, bool) {
	m := mask(w)
	switch op {
	case OAdd:
		return (x + y) & m, true
	case OSub:
		return (x - y) & m, true
	case OMul:
		return (x * y) & m, true
	case OUDiv:
		if y == 0 {
			return m, true
		}
		return x / y, true
	case OURem:
		if y == 0 {
			return x, true
		}
		return x % y, true
	case OSDiv:
		sx, sy := signed(w, x), signed(w, y)
		if sy == 0 {
			if sx < 0 {
				return 1, true
			}
			return m, true
		}
		if sy == -1 {
			return uint64(-sx) & m, true
		}
		return uint64(sx/sy) & m, true
	case OSRem:
		sx, sy := signed(w, x), signed(w, y)
		if sy == 0 {
			return x, true
		}
		if sy == -1 {
			return 0, true
		}
		return uint64(sx%sy) & m, true
	case OBAnd:
		return x & y, true
	case OBOr:
		return x | y, true
	case OBXor:
		return x ^ y, true
	case OShl:
		if y >= uint64(w) {
			return 0, true
		}
		return (x << y) & m, true
	case OLShr:
		if y >= uint64(w) {
			return 0, true
		}
		return x >> y, true
	case OAShr:
		sx := signed(w, x)
		if y >= uint64(w) {
			y = uint64(w) - 1
			if w > 63 {
				y = 63
			}
		}
		return uint64(sx>>y) & m, true
	}
	return 0, false
}

func bin(op Op, a, b *Term) *Term {
	if a.Sort != b.Sort || a.Sort.K != KBV {
		panic(fmt.Sprintf("bin %s sort mismatch %v %v", opNames[op], a.Sort, b.Sort))
	}
	w := a.W()
	if a.IsConst() && b.IsConst() && w <= 64 {
		if v, ok := foldBin(op, w, a.Val, b.Val); ok {
			return Const(w, v)
		}
	}
	commut := op == OAdd || op == OMul || op == OBAnd || op == OBOr || op == OBXor
	if commut && a.IsConst() {
		a, b = b, a
	}
	if b.IsConst() && w <= 64 {
		c := b.Val
		switch op {
		case OAdd:
			if c == 0 {
				return a
			}
			if a.Op == OAdd && a.Args[1].IsConst() {
				return bin(OAdd, a.Args[0], Const(w, a.Args[1].Val+c))
			}
		case OSub:
			if c == 0 {
				return a
			}
			return bin(OAdd, a, Const(w, -c))
		case OBOr, OBXor, OShl, OLShr, OAShr:
			if c == 0 {
				return a
			}
			if (op == OShl || op == OLShr) && c >= uint64(w) {
				return Const(w, 0)
			}
			if op == OBOr && c == mask(w) {
				return b
			}
		case OMul:
			if c == 0 {
				return b
			}
			if c == 1 {
				return a
			}
		case OUDiv, OSDiv:
			if c == 1 {
				return a
			}
		case OURem:
			if c == 1 {
				return Const(w, 0)
			}
		case OBAnd:
			if c == 0 {
				return b
			}
			if c == mask(w) {
				return a
			}
			// (zext x) & c where c covers x
			if a.Op == OZext && a.Args[0].W() < 64 && c&mask(a.Args[0].W()) == mask(a.Args[0].W()) {
				return a
			}
		}
	}
	if a.IsConst() && w <= 64 && a.Val == 0 {
		switch op {
		case OShl, OLShr, OAShr, OUDiv, OURem, OMul, OBAnd:
			if op != OUDiv && op != OURem {
				return a
			}
		}
	}
	if op == OAdd {
		// x + (y - x) = y
		if b.Op == OSub && b.Args[1] == a {
			return b.Args[0]
		}
		if a.Op == OSub && a.Args[1] == b {
			return a.Args[0]
		}
	}
	if op == OSub && a.Op == OAdd {
		// (x + y) - x = y
		if a.Args[0] == b {
			return a.Args[1]
		}
		if a.Args[1] == b {
			return a.Args[0]
		}
	}
	if a == b {
		switch op {
		case OBAnd, OBOr:
			return a
		case OBXor, OSub:
			if w <= 64 {
				return Const(w, 0)
			}
		}
	}
	return mk(op, a.Sort, 0, 0, 0, "", a, b)
}

func Add(a, b *Term) *Term  { return bin(OAdd, a, b) }
func Sub(a, b *Term) *Term  { return bin(OSub, a, b) }
func Mul(a, b *Term) *Term  { return bin(OMul, a, b) }
func UDiv(a, b *Term) *Term { return bin(OUDiv, a, b) }
func URem(a, b *Term) *Term { return bin(OURem, a, b) }
func SDiv(a, b *Term) *Term { return bin(OSDiv, a, b) }
func SRem(a, b *Term) *Term { return bin(OSRem, a, b) }
func BAnd(a, b *Term) *Term { return bin(OBAnd, a, b) }
func BOr(a, b *Term) *Term  { return bin(OBOr, a, b) }
func BXor(a, b *Term) *Term { return bin(OBXor, a, b) }
func Shl(a, b *Term) *Term  { return bin(OShl, a, b) }
func LShr(a, b *Term) *Term { return bin(OLShr, a, b) }
func AShr(a, b *Term) *Term { return bin(OAShr, a, b) }

func BNot(a *Term) *Term {
	if a.IsConst() && a.W() <= 64 {
		return Const(a.W(), ^a.Val)
	}
	if a.Op == OBNot {
		return a.Args[0]
	}
	return mk(OBNot, a.Sort, 0, 0, 0, "", a)
}

func Neg(a *Term) *Term {
	if a.IsConst() && a.W() <= 64 {
		return Const(a.W(), -a.Val)
	}
	return mk(ONeg, a.Sort, 0, 0, 0, "", a)
}

// zextInner: if t is zext(x) (or a const) return a narrower view
func cmpFold(op Op, w int, x, y uint64) bool {
	switch op {
	case OUlt:
		return x < y
	case OUle:
		return x <= y
	case OSlt:
		return signed(w, x) < signed(w, y)
	default:
		return signed(w, x) <= signed(w, y)
	}
}

func cmp(op Op, a, b *Term) *Term {
	if a.Sort != b.Sort || a.Sort.K != KBV {
		panic(fmt.Sprintf("cmp sort mismatch %v %v", a.Sort, b.Sort))
	}
	w := a.W()
	if a.IsConst() && b.IsConst() && w <= 64 {
		return Bool(cmpFold(op, w, a.Val, b.Val))
	}
	if a == b {
		return Bool(op == OUle || op == OSle)
	}
	if w <= 64 {
		// unsigned comparisons against zext
		if op == OUlt || op == OUle {
			if b.IsConst() {
				if op == OUlt && b.Val == 0 {
					return False()
				}
				if op == OUle && b.Val == mask(w) {
					return True()
				}
				if a.Op == OZext {
					iw := a.Args[0].W()
					if b.Val > mask(iw) {
						return True()
					}
					return cmp(op, a.Args[0], Const(iw, b.Val))
				}
			}
			if a.IsConst() {
				if op == OUle && a.Val == 0 {
					return True()
				}
				if op == OUlt && a.Val == mask(w) {
					return False()
				}
				if b.Op == OZext {
					iw := b.Args[0].W()
					if a.Val > mask(iw) {
						return False()
					}
					return cmp(op, Const(iw, a.Val), b.Args[0])
				}
			}
			if a.Op == OZext && b.Op == OZext && a.Args[0].Sort == b.Args[0].Sort {
				return cmp(op, a.Args[0], b.Args[0])
			}
		} else {
			// signed comparisons where both sides are zext (non-negative)
			az := a.Op == OZext || (a.IsConst() && signed(w, a.Val) >= 0)
			bz := b.Op == OZext || (b.IsConst() && signed(w, b.Val) >= 0)
			if az && bz {
				if op == OSlt {
					return cmp(OUlt, a, b)
				}
				return cmp(OUle, a, b)
			}
		}
	}
	return mk(op, BoolSort, 0, 0, 0, "", a, b)
}

func Ult(a, b *Term) *Term { return cmp(OUlt, a, b) }
func Ule(a, b *Term) *Term { return cmp(OUle, a, b) }
func Slt(a, b *Term) *Term { return cmp(OSlt, a, b) }
func Sle(a, b *Term) *Term { return cmp(OSle, a, b) }
func Ugt(a, b *Term) *Term { return cmp(OUlt, b, a) }
func Uge(a, b *Term) *Term { return cmp(OUle, b, a) }
func Sgt(a, b *Term) *Term { return cmp(OSlt, b, a) }
func Sge(a, b *Term) *Term { return cmp(OSle, b, a) }

func Extract(a *Term, hi, lo int) *Term {
	w := hi - lo + 1
	if lo == 0 && w == a.W() {
		return a
	}
	if hi >= a.W() || lo < 0 || w <= 0 {
		panic(fmt.Sprintf("bad extract [%d:%d] of width %d", hi, lo, a.W()))
	}
	if a.IsConst() {
		return Const(w, a.Val>>uint(lo))
	}
	switch a.Op {
	case OExtract:
		return Extract(a.Args[0], hi+a.B, lo+a.B)
	case OZext:
		iw := a.Args[0].W()
		if hi < iw {
			return Extract(a.Args[0], hi, lo)
		}
		if lo >= iw && w <= 64 {
			return Const(w, 0)
		}
		if lo == 0 {
			return Zext(a.Args[0], w-iw)
		}
	case OSext:
		iw := a.Args[0].W()
		if hi < iw {
			return Extract(a.Args[0], hi, lo)
		}
		if lo == 0 {
			return Sext(a.Args[0], w-iw)
		}
	case OConcat:
		lw := a.Args[1].W()
		if hi < lw {
			return Extract(a.Args[1], hi, lo)
		}
		if lo >= lw {
			return Extract(a.Args[0], hi-lw, lo-lw)
		}
	case OIte:
		if a.Args[1].IsConst() && a.Args[2].IsConst() {
			return Ite(a.Args[0], Extract(a.Args[1], hi, lo), Extract(a.Args[2], hi, lo))
		}
	case OBAnd, OBOr, OBXor:
		if lo == 0 || a.Args[1].IsConst() {
			return bin(a.Op, Extract(a.Args[0], hi, lo), Extract(a.Args[1], hi, lo))
		}
	case OAdd, OSub, OMul:
		if lo == 0 {
			return bin(a.Op, Extract(a.Args[0], hi, 0), Extract(a.Args[1], hi, 0))
		}
	}
	return mk(OExtract, BV(w), hi, lo, 0, "", a)
}

func Concat(a, b *Term) *Term {
	w := a.W() + b.W()
	if a.IsConst() && b.IsConst() && w <= 64 {
		return Const(w, a.Val<<uint(b.W())|b.Val)
	}
	if a.IsConst() && a.Val == 0 && a.W() <= 64 {
		return Zext(b, a.W())
	}
	return mk(OConcat, BV(w), 0, 0, 0, "", a, b)
}

func Zext(a *Term, n int) *Term {
	if n == 0 {
		return a
	}
	if n < 0 {
		panic("negative zext")
	}
	w := a.W() + n
	if a.IsConst() && w <= 64 {
		return Const(w, a.Val)
	}
	if a.Op == OZext {
		return Zext(a.Args[0], n+a.A)
	}
	if a.Op == OIte && a.Args[1].IsConst() && a.Args[2].IsConst() && w <= 64 {
		return Ite(a.Args[0], Zext(a.Args[1], n), Zext(a.Args[2], n))
	}
	return mk(OZext, BV(w), n, 0, 0, "", a)
}

func Sext(a *Term, n int) *Term {
	if n == 0 {
		return a
	}
	w := a.W() + n
	if a.IsConst() && w <= 64 {
		return Const(w, uint64(signed(a.W(), a.Val)))
	}
	if a.Op == OZext {
		return Zext(a.Args[0], n+a.A)
	}
	if a.Op == OSext {
		return Sext(a.Args[0], n+a.A)
	}
	return mk(OSext, BV(w), n, 0, 0, "", a)
}

// Resize converts a to width w with zero or sign extension / truncation.
func Resize(a *Term, w int, sign bool) *Term {
	switch {
	case a.W() == w:
		return a
	case a.W() > w:
		return Extract(a, w-1, 0)
	case sign:
		return Sext(a, w-a.W())
	default:
		return Zext(a, w-a.W())
	}
}

// ---- floating point ----

// FPValue returns the value of a floating-point constant.
func FPValue(t *Term) float64 { return fpval(t) }

func fpval(t *Term) float64 {
	if t.Sort.W == 32 {
		return float64(math.Float32frombits(uint32(t.Val)))
	}
	return math.Float64frombits(t.Val)
}

func fpconst(w int, f float64) *Term {
	if w == 32 {
		return FPConst32(float32(f))
	}
	return FPConst64(f)
}

func FpCmp(op Op, a, b *Term) *Term {
	if a.IsConst() && b.IsConst() {
		x, y := fpval(a), fpval(b)
		switch op {
		case OFpEq:
			return Bool(x == y)
		case OFpLt:
			return Bool(x < y)
		default:
			return Bool(x <= y)
		}
	}
	return mk(op, BoolSort, 0, 0, 0, "", a, b)
}

func FpIsNaN(a *Term) *Term {
	if a.IsConst() {
		return Bool(math.IsNaN(fpval(a)))
	}
	return mk(OFpIsNaN, BoolSort, 0, 0, 0, "", a)
}

func FpIsInf(a *Term) *Term {
	if a.IsConst() {
		return Bool(math.IsInf(fpval(a), 0))
	}
	return mk(OFpIsInf, BoolSort, 0, 0, 0, "", a)
}

func FpNeg(a *Term) *Term {
	if a.IsConst() {
		return fpconst(a.Sort.W, -fpval(a))
	}
	return mk(OFpNeg, a.Sort, 0, 0, 0, "", a)
}

func FpArith(op Op, a, b *Term) *Term {
	if a.IsConst() && b.IsConst() {
		x, y := fpval(a), fpval(b)
		var r float64
		if a.Sort.W == 32 {
			fx, fy := float32(x), float32(y)
			var fr float32
			switch op {
			case OFpAdd:
				fr = fx + fy
			case OFpSub:
				fr = fx - fy
			case OFpMul:
				fr = fx * fy
			default:
				fr = fx / fy
			}
			return FPConst32(fr)
		}
		switch op {
		case OFpAdd:
			r = x + y
		case OFpSub:
			r = x - y
		case OFpMul:
			r = x * y
		default:
			r = x / y
		}
		return FPConst64(r)
	}
	return mk(op, a.Sort, 0, 0, 0, "", a, b)
}

func FpToFp(a *Term, w int) *Term {
	if a.Sort.W == w {
		return a
	}
	if a.IsConst() {
		return fpconst(w, fpval(a))
	}
	return mk(OFpToFp, FP(w), 0, 0, 0, "", a)
}

func FpFromBV(a *Term, w int, sign bool) *Term {
	if a.IsConst() && a.W() <= 64 {
		if sign {
			if w == 32 {
				return FPConst32(float32(signed(a.W(), a.Val)))
			}
			return FPConst64(float64(signed(a.W(), a.Val)))
		}
		if w == 32 {
			return FPConst32(float32(a.Val))
		}
		return FPConst64(float64(a.Val))
	}
	op := OFpFromUBV
	if sign {
		op = OFpFromSBV
	}
	return mk(op, FP(w), 0, 0, 0, "", a)
}

// FpToBVRaw is SMT fp.to_ubv/fp.to_sbv with RTZ (unspecified out of range, callers guard it).
func FpToBVRaw(a *Term, w int, sign bool) *Term {
	op := OFpToUBV
	if sign {
		op = OFpToSBV
	}
	return mk(op, BV(w), w, 0, 0, "", a)
}

var rmNames = [...]string{"RTZ", "RTN", "RTP", "RNE"}

// FpRoundToIntegral rounds to an integral float (mode 0 toward zero, 1 down, 2 up, 3 nearest-even).
func FpRoundToIntegral(a *Term, mode int) *Term {
	if a.IsConst() {
		x := fpval(a)
		var r float64
		switch mode {
		case 0:
			r = math.Trunc(x)
		case 1:
			r = math.Floor(x)
		case 2:
			r = math.Ceil(x)
		default:
			r = math.RoundToEven(x)
		}
		return fpconst(a.Sort.W, r)
	}
	return mk(OFpRTI, a.Sort, mode, 0, 0, "", a)
}

func FpOfBits(a *Term) *Term {
	if a.IsConst() {
		return mk(OConst, FP(a.W()), 0, 0, a.Val, "")
	}
	return mk(OFpOfBits, FP(a.W()), 0, 0, 0, "", a)
}

// ---- utilities ----

// Vars collects the free variables of the given roots.
func Vars(roots ...*Term) []*Term {
	seen := map[int]bool{}
	var out []*Term
	var walk func(t *Term)
	walk = func(t *Term) {
		if seen[t.ID] {
			return
		}
		seen[t.ID] = true
		if t.Op == OVar {
			out = append(out, t)
		}
		for _, a := range t.Args {
			walk(a)
		}
	}
	for _, r := range roots {
		walk(r)
	}
	sort.Slice(out, func(i, j int) bool { return out[i].ID < out[j].ID })
	return out
}

// Size returns the number of DAG nodes reachable from roots.
func Size(roots ...*Term) int {
	seen := map[int]bool{}
	var walk func(t *Term)
	walk = func(t *Term) {
		if seen[t.ID] {
			return
		}
		seen[t.ID] = true
		for _, a := range t.Args {
			walk(a)
		}
	}
	for _, r := range roots {
		walk(r)
	}
	return len(seen)
}

func (t *Term) String() string {
	if t.Op == OConst {
		if t.Sort.K == KBool {
			return fmt.Sprint(t.Val == 1)
		}
		return fmt.Sprintf("%d:%d", t.Val, t.Sort.W)
	}
	if t.Op == OVar {
		return t.Name
	}
	return fmt.Sprintf("t%d", t.ID)
}

var _ = bits.Len

// Deep prints a term as a nested expression down to the given depth (debugging aid).
func Deep(t *Term, depth int) string {
	if t.IsConst() || t.Op == OVar || depth == 0 {
		return t.String()
	}
	s := fmt.Sprintf("(op%d", t.Op)
	if t.A != 0 || t.B != 0 {
		s += fmt.Sprintf("[%d,%d]", t.A, t.B)
	}
	for _, a := range t.Args {
		s += " " + Deep(a, depth-1)
	}
	return s + ")"
}
