package term

import (
	"fmt"
	"math"
	mbits "math/bits"
	"sort"
	"strings"
)

func constSMT(t *Term) string {
	switch t.Sort.K {
	case KBool:
		if t.Val == 1 {
			return "true"
		}
		return "false"
	case KBV:
		w := t.Sort.W
		if w%4 == 0 {
			return fmt.Sprintf("#x%0*x", w/4, t.Val)
		}
		return fmt.Sprintf("#b%0*b", w, t.Val)
	default:
		if t.Sort.W == 32 {
			v := uint32(t.Val)
			return fmt.Sprintf("(fp #b%b #b%08b #b%023b)", v>>31, (v>>23)&0xff, v&0x7fffff)
		}
		v := t.Val
		return fmt.Sprintf("(fp #b%b #b%011b #b%052b)", v>>63, (v>>52)&0x7ff, v&0xfffffffffffff)
	}
}

func fpSortArgs(w int) string {
	if w == 32 {
		return "8 24"
	}
	return "11 53"
}

func nodeRef(t *Term) string {
	switch t.Op {
	case OConst:
		return constSMT(t)
	case OVar:
		return "|" + t.Name + "|"
	}
	return fmt.Sprintf("t%d", t.ID)
}

func nodeExpr(t *Term) string {
	var sb strings.Builder
	args := func() {
		for _, a := range t.Args {
			sb.WriteByte(' ')
			sb.WriteString(nodeRef(a))
		}
	}
	switch t.Op {
	case OExtract:
		fmt.Fprintf(&sb, "((_ extract %d %d)", t.A, t.B)
	case OZext:
		fmt.Fprintf(&sb, "((_ zero_extend %d)", t.A)
	case OSext:
		fmt.Fprintf(&sb, "((_ sign_extend %d)", t.A)
	case OFpAdd:
		sb.WriteString("(fp.add RNE")
	case OFpSub:
		sb.WriteString("(fp.sub RNE")
	case OFpMul:
		sb.WriteString("(fp.mul RNE")
	case OFpDiv:
		sb.WriteString("(fp.div RNE")
	case OFpToFp:
		fmt.Fprintf(&sb, "((_ to_fp %s) RNE", fpSortArgs(t.Sort.W))
	case OFpFromSBV:
		fmt.Fprintf(&sb, "((_ to_fp %s) RNE", fpSortArgs(t.Sort.W))
	case OFpFromUBV:
		fmt.Fprintf(&sb, "((_ to_fp_unsigned %s) RNE", fpSortArgs(t.Sort.W))
	case OFpToUBV:
		fmt.Fprintf(&sb, "((_ fp.to_ubv %d) RTZ", t.A)
	case OFpToSBV:
		fmt.Fprintf(&sb, "((_ fp.to_sbv %d) RTZ", t.A)
	case OFpOfBits:
		fmt.Fprintf(&sb, "((_ to_fp %s)", fpSortArgs(t.Sort.W))
	case OFpRTI:
		fmt.Fprintf(&sb, "(fp.roundToIntegral %s", rmNames[t.A])
	default:
		n, ok := opNames[t.Op]
		if !ok {
			panic(fmt.Sprintf("no smt name for op %d", t.Op))
		}
		sb.WriteString("(" + n)
	}
	args()
	sb.WriteByte(')')
	return sb.String()
}

// Script renders declarations + definitions for all nodes under roots, in topological order.
// It returns the script text (without check-sat) and the variables declared.
func Script(roots ...*Term) (string, []*Term) {
	seen := map[int]bool{}
	var order []*Term
	var walk func(t *Term)
	walk = func(t *Term) {
		if seen[t.ID] {
			return
		}
		seen[t.ID] = true
		for _, a := range t.Args {
			walk(a)
		}
		order = append(order, t)
	}
	for _, r := range roots {
		walk(r)
	}
	var sb strings.Builder
	var vars []*Term
	for _, t := range order {
		if t.Op == OVar {
			vars = append(vars, t)
		}
	}
	sort.Slice(vars, func(i, j int) bool { return vars[i].ID < vars[j].ID })
	for _, v := range vars {
		fmt.Fprintf(&sb, "(declare-const |%s| %s)\n", v.Name, v.Sort.SMT())
	}
	for _, t := range order {
		if t.Op == OVar || t.Op == OConst {
			continue
		}
		fmt.Fprintf(&sb, "(define-fun t%d () %s %s)\n", t.ID, t.Sort.SMT(), nodeExpr(t))
	}
	return sb.String(), vars
}

// Ref returns the SMT reference of a term inside a Script.
func Ref(t *Term) string { return nodeRef(t) }

// ---- concrete evaluation ----

type Model map[string]uint64

// Eval evaluates t under the model (missing variables are 0). Only widths <= 64 except via zext/concat of <=128 handled in pairs.
type wide struct{ hi, lo uint64 }

func Eval(t *Term, m Model) uint64 {
	memo := map[int]wide{}
	return eval(t, m, memo).lo
}

func EvalBool(t *Term, m Model) bool { return Eval(t, m) != 0 }

func maskW(v wide, w int) wide {
	if w >= 128 {
		return v
	}
	if w > 64 {
		v.hi &= mask(w - 64)
		return v
	}
	return wide{0, v.lo & mask(w)}
}

func eval(t *Term, m Model, memo map[int]wide) wide {
	if v, ok := memo[t.ID]; ok {
		return v
	}
	var r wide
	w := t.Sort.W
	arg := func(i int) wide { return eval(t.Args[i], m, memo) }
	switch t.Op {
	case OConst:
		r = wide{0, t.Val}
	case OVar:
		r = wide{0, m[t.Name]}
		if t.Sort.K == KBV {
			r = maskW(r, w)
		}
	case ONot:
		r = wide{0, 1 - arg(0).lo}
	case OAnd:
		r.lo = 1
		for i := range t.Args {
			if arg(i).lo == 0 {
				r.lo = 0
				break
			}
		}
	case OOr:
		for i := range t.Args {
			if arg(i).lo == 1 {
				r.lo = 1
				break
			}
		}
	case OIte:
		if arg(0).lo == 1 {
			r = arg(1)
		} else {
			r = arg(2)
		}
	case OEq:
		a, b := arg(0), arg(1)
		if t.Args[0].Sort.K == KFP {
			// SMT "=" on FP: identical bit patterns except all NaNs equal
			x, y := fpval(&Term{Sort: t.Args[0].Sort, Val: a.lo}), fpval(&Term{Sort: t.Args[0].Sort, Val: b.lo})
			if (math.IsNaN(x) && math.IsNaN(y)) || a == b {
				r.lo = 1
			}
		} else if a == b {
			r.lo = 1
		}
	case OUlt, OUle, OSlt, OSle:
		a, b := arg(0), arg(1)
		aw := t.Args[0].W()
		if aw <= 64 {
			if cmpFold(t.Op, aw, a.lo, b.lo) {
				r.lo = 1
			}
		} else {
			// 128-bit unsigned only
			lt := a.hi < b.hi || (a.hi == b.hi && a.lo < b.lo)
			eq := a == b
			switch t.Op {
			case OUlt:
				r.lo = b2u(lt)
			case OUle:
				r.lo = b2u(lt || eq)
			default:
				panic("signed wide compare unsupported in eval")
			}
		}
	case OAdd, OSub, OMul, OUDiv, OURem, OSDiv, OSRem, OBAnd, OBOr, OBXor, OShl, OLShr, OAShr:
		a, b := arg(0), arg(1)
		if w <= 64 {
			v, _ := foldBin(t.Op, w, a.lo, b.lo)
			r = wide{0, v}
		} else {
			r = wideBin(t.Op, a, b, w)
		}
	case OBNot:
		a := arg(0)
		r = maskW(wide{^a.hi, ^a.lo}, w)
	case ONeg:
		a := arg(0)
		if w > 64 {
			panic("wide neg")
		}
		r = wide{0, (-a.lo) & mask(w)}
	case OExtract:
		a := arg(0)
		sh := uint(t.B)
		var v wide
		if sh >= 64 {
			v = wide{0, a.hi >> (sh - 64)}
		} else if sh == 0 {
			v = a
		} else {
			v = wide{a.hi >> sh, a.lo>>sh | a.hi<<(64-sh)}
		}
		r = maskW(v, w)
	case OConcat:
		a, b := arg(0), arg(1)
		bw := uint(t.Args[1].W())
		if bw == 64 {
			r = wide{a.lo, b.lo}
		} else if bw < 64 {
			r = wide{a.hi<<bw | a.lo>>(64-bw), a.lo<<bw | b.lo}
			if bw == 0 {
				r = a
			}
		} else {
			r = wide{a.lo<<(bw-64) | b.hi, b.lo}
		}
		r = maskW(r, w)
	case OZext:
		r = arg(0)
	case OSext:
		a := arg(0)
		iw := t.Args[0].W()
		if w > 64 {
			s := signed(iw, a.lo)
			r = wide{uint64(s >> 63), uint64(s)}
			r = maskW(r, w)
		} else {
			r = wide{0, uint64(signed(iw, a.lo)) & mask(w)}
		}
	case OFpEq, OFpLt, OFpLe:
		x := fpval(&Term{Sort: t.Args[0].Sort, Val: arg(0).lo})
		y := fpval(&Term{Sort: t.Args[1].Sort, Val: arg(1).lo})
		switch t.Op {
		case OFpEq:
			r.lo = b2u(x == y)
		case OFpLt:
			r.lo = b2u(x < y)
		default:
			r.lo = b2u(x <= y)
		}
	case OFpIsNaN:
		r.lo = b2u(math.IsNaN(fpval(&Term{Sort: t.Args[0].Sort, Val: arg(0).lo})))
	case OFpIsInf:
		r.lo = b2u(math.IsInf(fpval(&Term{Sort: t.Args[0].Sort, Val: arg(0).lo}), 0))
	case OFpNeg:
		x := fpval(&Term{Sort: t.Args[0].Sort, Val: arg(0).lo})
		r.lo = fpconst(w, -x).Val
	case OFpAdd, OFpSub, OFpMul, OFpDiv:
		a := &Term{Op: OConst, Sort: t.Args[0].Sort, Val: arg(0).lo}
		b := &Term{Op: OConst, Sort: t.Args[1].Sort, Val: arg(1).lo}
		r.lo = FpArith(t.Op, a, b).Val
	case OFpToFp:
		x := fpval(&Term{Sort: t.Args[0].Sort, Val: arg(0).lo})
		r.lo = fpconst(w, x).Val
	case OFpFromSBV:
		r.lo = FpFromBV(Const(t.Args[0].W(), arg(0).lo), w, true).Val
	case OFpFromUBV:
		r.lo = FpFromBV(Const(t.Args[0].W(), arg(0).lo), w, false).Val
	case OFpToUBV:
		x := fpval(&Term{Sort: t.Args[0].Sort, Val: arg(0).lo})
		r.lo = uint64(x) & mask(w)
	case OFpToSBV:
		x := fpval(&Term{Sort: t.Args[0].Sort, Val: arg(0).lo})
		r.lo = uint64(int64(x)) & mask(w)
	case OFpOfBits:
		r = arg(0)
	case OFpRTI:
		c := &Term{Op: OConst, Sort: t.Args[0].Sort, Val: arg(0).lo}
		r.lo = FpRoundToIntegral(c, t.A).Val
	default:
		panic(fmt.Sprintf("eval: unsupported op %d", t.Op))
	}
	memo[t.ID] = r
	return r
}

func b2u(b bool) uint64 {
	if b {
		return 1
	}
	return 0
}

func wideBin(op Op, a, b wide, w int) wide {
	var r wide
	switch op {
	case OAdd:
		lo := a.lo + b.lo
		c := uint64(0)
		if lo < a.lo {
			c = 1
		}
		r = wide{a.hi + b.hi + c, lo}
	case OSub:
		lo := a.lo - b.lo
		c := uint64(0)
		if a.lo < b.lo {
			c = 1
		}
		r = wide{a.hi - b.hi - c, lo}
	case OMul:
		hi, lo := mul64(a.lo, b.lo)
		r = wide{hi + a.hi*b.lo + a.lo*b.hi, lo}
	case OBAnd:
		r = wide{a.hi & b.hi, a.lo & b.lo}
	case OBOr:
		r = wide{a.hi | b.hi, a.lo | b.lo}
	case OBXor:
		r = wide{a.hi ^ b.hi, a.lo ^ b.lo}
	case OUDiv, OURem:
		if b.hi != 0 {
			panic("wide div by wide divisor unsupported in eval")
		}
		if b.lo == 0 {
			if op == OUDiv {
				return maskW(wide{^uint64(0), ^uint64(0)}, w)
			}
			return a
		}
		qhi := a.hi / b.lo
		rem := a.hi % b.lo
		qlo, rr := div64(rem, a.lo, b.lo)
		if op == OUDiv {
			r = wide{qhi, qlo}
		} else {
			r = wide{0, rr}
		}
	case OShl:
		if b.hi != 0 || b.lo >= 128 {
			return wide{}
		}
		s := uint(b.lo)
		switch {
		case s == 0:
			r = a
		case s < 64:
			r = wide{a.hi<<s | a.lo>>(64-s), a.lo << s}
		default:
			r = wide{a.lo << (s - 64), 0}
		}
	case OLShr:
		if b.hi != 0 || b.lo >= 128 {
			return wide{}
		}
		s := uint(b.lo)
		switch {
		case s == 0:
			r = a
		case s < 64:
			r = wide{a.hi >> s, a.lo>>s | a.hi<<(64-s)}
		default:
			r = wide{0, a.hi >> (s - 64)}
		}
	default:
		panic(fmt.Sprintf("wide op %d unsupported in eval", op))
	}
	return maskW(r, w)
}

func mul64(x, y uint64) (hi, lo uint64)    { return mbits.Mul64(x, y) }
func div64(hi, lo, y uint64) (q, r uint64) { return mbits.Div64(hi, lo, y) }
